#!/usr/bin/env python3
"""seedstore.py <name> <property> <worktree> <caught:yes|no|...> <needs> <ran> [notes]
Stores a confirmed seeded change under /verif/seeded/<name>/."""
import sys, os, shutil, json, subprocess
name, prop, wt, caught, needs, ran = sys.argv[1:7]
notes = sys.argv[7] if len(sys.argv) > 7 else ""
d = f"/verif/seeded/{name}"
os.makedirs(d, exist_ok=True)
for f in os.listdir(f"{wt}/_out"):
    if f == "PROPERTY.txt": continue
    src = f"{wt}/_out/{f}"
    if os.path.isfile(src):
        dst = f if not f.endswith("_test.go") else f + ".txt"  # keep out of go tooling
        shutil.copy(src, f"{d}/{dst}")
files = subprocess.run(["git","-C",wt,"diff","--name-only"],capture_output=True,text=True).stdout.split()
meta = {"property": prop, "name": name, "files_changed": files, "needs_to_manifest": needs,
        "confirmed": "tools/seedverify.sh: builds, existing tests of touched packages pass with the patch, demonstration fails with it and passes without it",
        "check_run": ran, "caught_by_check": caught, "notes": notes,
        "apply": f"git -C /repo apply /verif/seeded/{name}/patch.diff ; ./check {prop} ; git -C /repo checkout -- ."}
json.dump(meta, open(f"{d}/meta.json","w"), indent=1)
print("stored", d, os.listdir(d))
