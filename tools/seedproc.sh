#!/bin/bash
# seedproc.sh <ID> <seed-name> <worktree> : confirm a sub-agent's seeded change (seedverify.sh) from its README
# header lines, then run the quick tier of <ID> against the worktree (SEED_IN_WORKTREE), one seed at a time (flock).
set -u
id=$1; name=$2; wt=$3
pkg=$(grep -m1 '^ *PKGDIR:' $wt/_out/README.md | sed 's/^ *PKGDIR: *//; s/`//g; s/ *$//; s#/$##')
tp=$(grep -m1 '^ *TESTPKGS:' $wt/_out/README.md | sed 's/^ *TESTPKGS: *//; s/`//g')
exec 9>/tmp/seedproc.lock; flock 9
echo "== $name: pkg=$pkg tests=$tp"
(cd $wt && git diff > _out/patch.diff.new && [ -s _out/patch.diff.new ] && mv _out/patch.diff.new _out/patch.diff)
/verif/tools/seedverify.sh $wt "$pkg" demo_test.go 'TestSeedDemo' $tp 2>&1 | tail -12
SEED_IN_WORKTREE=1 /verif/tools/seedrun.sh $id $name $wt quick
