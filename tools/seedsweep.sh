#!/bin/bash
# seedsweep.sh [names...]: re-run every stored seeded change against the current checks (in a scratch worktree of /repo HEAD).
cd /verif
names=${@:-$(ls seeded)}
for n in $names; do
  prop=$(python3 -c "import json;print(json.load(open('/verif/seeded/$n/meta.json'))['property'])")
  wt=/tmp/seedsweep-wt
  git -C /repo worktree remove --force $wt >/dev/null 2>&1
  git -C /repo worktree add --detach -q $wt HEAD || { echo "$n worktree failed"; continue; }
  if ! git -C $wt apply /verif/seeded/$n/patch.diff 2>/dev/null; then
    if ! git -C $wt apply -3 /verif/seeded/$n/patch.diff 2>/dev/null; then echo "$n ($prop): patch does not apply to HEAD any more"; git -C /repo worktree remove --force $wt; continue; fi
  fi
  VERIF_REPO=$wt VERIF_SCRATCH=/tmp/verif-scratch-seed VERIF_BIN=/tmp/verif-bin-seed ./check $prop --tier quick --no-evidence > /tmp/seedsweep-$n.log 2>&1; rc=$?
  o=$(grep -o "violation oracle=[a-z-]*" /tmp/seedsweep-$n.log | head -1)
  echo "$n ($prop): exit=$rc $o"
  git -C /repo worktree remove --force $wt
done
