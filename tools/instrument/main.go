// instrument rewrites a scratch copy of the repository so that it runs under
// the verifsim deterministic scheduler. Rules R1..R7 of DESIGN.md §2.4. All
// rules are type-directed or pattern-based, never line-based.
package main

import (
	"bytes"
	"encoding/json"
	"flag"
	"fmt"
	"go/ast"
	"go/format"
	"go/token"
	"go/types"
	"os"
	"path/filepath"
	"sort"
	"strings"

	"golang.org/x/tools/go/ast/astutil"
	"golang.org/x/tools/go/packages"
)

type seamRule struct {
	InPkg   string `json:"in_pkg"`  // package path suffix being instrumented ("" = any)
	Callee  string `json:"callee"`  // import path of the callee package
	Name    string `json:"name"`    // package-level identifier
	Replace string `json:"replace"` // local identifier defined by an overlay file
	// RecvType != "": Name is a method of Callee.RecvType; x.Name(args) becomes Replace(x, args)
	RecvType string `json:"recv_type"`
}

type config struct {
	Seams []seamRule `json:"seams"`
	// packages (path suffix match) in which os.* calls are NOT rewritten
	Skip []string `json:"skip"`
	// packages (path substring match) whose unsynchronised shared memory is modelled: a map write
	// becomes a two-step operation with a scheduling point in between (a second writer arriving in
	// between is what the Go runtime reports as "concurrent map writes"), and a read-modify-write of
	// a variable captured by a function literal gets a scheduling point between read and write
	Racy []string `json:"racy"`
}

var (
	flagDir     = flag.String("dir", "", "module directory to instrument (in place)")
	flagPkgs    = flag.String("pkgs", "./...", "comma separated package patterns")
	flagCfg     = flag.String("config", "", "seam config json")
	flagVerbose = flag.Bool("v", false, "verbose")
	flagExclude = flag.String("exclude", "", "comma separated package path substrings to leave untouched")
)

var osFuncs = map[string]bool{
	"Open": true, "OpenFile": true, "Create": true, "CreateTemp": true, "Mkdir": true, "MkdirAll": true,
	"MkdirTemp": true, "Rename": true, "Remove": true, "RemoveAll": true, "Lchown": true, "Chown": true,
	"Stat": true, "Lstat": true, "ReadDir": true, "ReadFile": true, "WriteFile": true, "Symlink": true,
	"Link": true, "Chmod": true, "Chtimes": true, "Readlink": true, "Truncate": true,
}

var syncTypes = map[string]bool{"Pool": true, "Mutex": true, "RWMutex": true, "Once": true, "Cond": true, "NewCond": true, "Locker": true}

type stats struct {
	mutex, gostmt, wrap, resume, maprange, bolt, osrw, seam, skipped, racy int
}

type fileCtx struct {
	pkg      *packages.Package
	file     *ast.File
	info     *types.Info
	fset     *token.FileSet
	cfg      *config
	st       *stats
	needRT   bool
	needSync bool
	needOS   bool
	fn       string
	ctr      map[string]int
	gen      map[ast.Node]bool
	warn     []string
	tmp      int
}

func main() {
	flag.Parse()
	cfg := &config{}
	if *flagCfg != "" {
		b, err := os.ReadFile(*flagCfg)
		if err != nil {
			fatal(err)
		}
		if err := json.Unmarshal(b, cfg); err != nil {
			fatal(err)
		}
	}
	pcfg := &packages.Config{
		Mode: packages.NeedName | packages.NeedFiles | packages.NeedCompiledGoFiles | packages.NeedSyntax |
			packages.NeedTypes | packages.NeedTypesInfo | packages.NeedImports | packages.NeedDeps,
		Dir:   *flagDir,
		Tests: false,
		Env:   os.Environ(),
	}
	pkgs, err := packages.Load(pcfg, strings.Split(*flagPkgs, ",")...)
	if err != nil {
		fatal(err)
	}
	var excl []string
	if *flagExclude != "" {
		excl = strings.Split(*flagExclude, ",")
	}
	st := &stats{}
	nerr := 0
	for _, p := range pkgs {
		for _, e := range p.Errors {
			fmt.Fprintf(os.Stderr, "load error %s: %v\n", p.PkgPath, e)
			nerr++
		}
	}
	if nerr > 0 {
		os.Exit(2)
	}
	sort.Slice(pkgs, func(i, j int) bool { return pkgs[i].PkgPath < pkgs[j].PkgPath })
	var warns []string
pk:
	for _, p := range pkgs {
		for _, x := range excl {
			if strings.Contains(p.PkgPath, x) {
				continue pk
			}
		}
		for i, f := range p.Syntax {
			name := p.CompiledGoFiles[i]
			if !strings.HasPrefix(name, *flagDir) && !filepath.IsAbs(*flagDir) {
				// relative dir: accept
			}
			if strings.HasSuffix(name, "_test.go") || !strings.HasSuffix(name, ".go") {
				continue
			}
			fc := &fileCtx{pkg: p, file: f, info: p.TypesInfo, fset: p.Fset, cfg: cfg, st: st, ctr: map[string]int{}, gen: map[ast.Node]bool{}}
			changed := fc.process()
			warns = append(warns, fc.warn...)
			if !changed {
				continue
			}
			var buf bytes.Buffer
			if err := format.Node(&buf, p.Fset, f); err != nil {
				fatal(fmt.Errorf("%s: %v", name, err))
			}
			if err := os.WriteFile(name, buf.Bytes(), 0644); err != nil {
				fatal(err)
			}
			if *flagVerbose {
				fmt.Println("rewrote", name)
			}
		}
	}
	sort.Strings(warns)
	for _, w := range warns {
		fmt.Fprintln(os.Stderr, "instrument: warning:", w)
	}
	fmt.Printf("instrument %s: mutex-types=%d go=%d wrapped=%d resume=%d maprange=%d bolt=%d os=%d seam=%d racy=%d skipped=%d\n",
		*flagDir, st.mutex, st.gostmt, st.wrap, st.resume, st.maprange, st.bolt, st.osrw, st.seam, st.racy, st.skipped)
}

func fatal(err error) {
	fmt.Fprintln(os.Stderr, "instrument:", err)
	os.Exit(2)
}

func (c *fileCtx) pkgOf(id *ast.Ident) string {
	if o, ok := c.info.Uses[id].(*types.PkgName); ok {
		return o.Imported().Path()
	}
	return ""
}

func (c *fileCtx) site(kind string) string {
	k := c.fn + "." + kind
	n := c.ctr[k]
	c.ctr[k] = n + 1
	return fmt.Sprintf("%s.%s#%d", c.pkg.Name, k, n)
}

func lit(s string) *ast.BasicLit {
	return &ast.BasicLit{Kind: token.STRING, Value: fmt.Sprintf("%q", s)}
}

func sel(pkg, name string) *ast.SelectorExpr {
	return &ast.SelectorExpr{X: ast.NewIdent(pkg), Sel: ast.NewIdent(name)}
}

func call(fn ast.Expr, args ...ast.Expr) *ast.CallExpr { return &ast.CallExpr{Fun: fn, Args: args} }

func (c *fileCtx) resumeStmt() ast.Stmt {
	c.needRT = true
	c.st.resume++
	return &ast.ExprStmt{X: call(sel("simrt", "Resume"), lit(c.site("resume")))}
}

func (c *fileCtx) skipOS() bool {
	for _, s := range c.cfg.Skip {
		if strings.HasSuffix(c.pkg.PkgPath, s) {
			return true
		}
	}
	return false
}

// calleeObj returns the object a call expression's function resolves to.
func (c *fileCtx) calleeObj(ce *ast.CallExpr) types.Object {
	switch f := ce.Fun.(type) {
	case *ast.Ident:
		return c.info.Uses[f]
	case *ast.SelectorExpr:
		if s, ok := c.info.Selections[f]; ok {
			return s.Obj()
		}
		return c.info.Uses[f.Sel]
	}
	return nil
}

func recvTypeName(o types.Object) (pkg, typ string) {
	fn, ok := o.(*types.Func)
	if !ok {
		return "", ""
	}
	sig := fn.Type().(*types.Signature)
	if sig.Recv() == nil {
		return "", ""
	}
	t := sig.Recv().Type()
	if p, ok := t.(*types.Pointer); ok {
		t = p.Elem()
	}
	if n, ok := t.(*types.Named); ok {
		if n.Obj().Pkg() != nil {
			return n.Obj().Pkg().Path(), n.Obj().Name()
		}
	}
	return "", ""
}

// blockingCall reports whether ce is a call known to block on a real primitive.
func (c *fileCtx) blockingCall(ce *ast.CallExpr) bool {
	o := c.calleeObj(ce)
	if o == nil {
		return false
	}
	if o.Pkg() != nil && o.Pkg().Path() == "time" && o.Name() == "Sleep" {
		return true
	}
	rp, rt := recvTypeName(o)
	switch o.Name() {
	case "Wait":
		if len(ce.Args) <= 1 && rt != "" {
			return true
		}
	case "Acquire":
		return strings.HasSuffix(rp, "x/sync/semaphore")
	case "Do", "DoChan":
		return strings.HasSuffix(rp, "singleflight")
	case "Update", "View", "Batch":
		return strings.HasSuffix(rp, "bbolt") && rt == "DB"
	}
	return false
}

// exprBlocks reports whether evaluating e (not descending into function
// literals) can block on a real primitive.
func (c *fileCtx) exprBlocks(n ast.Node) bool {
	if n == nil {
		return false
	}
	found := false
	ast.Inspect(n, func(x ast.Node) bool {
		if found {
			return false
		}
		switch v := x.(type) {
		case *ast.FuncLit:
			return false
		case *ast.UnaryExpr:
			if v.Op == token.ARROW {
				found = true
			}
		case *ast.CallExpr:
			if c.blockingCall(v) {
				found = true
			}
		}
		return true
	})
	return found
}

func (c *fileCtx) process() bool {
	before := *c.st
	// Pass A: expression-level rewrites.
	ast.Inspect(c.file, func(n ast.Node) bool {
		switch v := n.(type) {
		case *ast.SelectorExpr:
			id, ok := v.X.(*ast.Ident)
			if !ok {
				return true
			}
			switch p := c.pkgOf(id); {
			case p == "sync" && syncTypes[v.Sel.Name]:
				v.X = ast.NewIdent("simsync")
				c.needSync = true
				c.st.mutex++
			case p == "os" && osFuncs[v.Sel.Name] && !c.skipOS():
				v.X = ast.NewIdent("simos")
				c.needOS = true
				c.st.osrw++
			}
		case *ast.CallExpr:
			c.rewriteCall(v)
		}
		return true
	})
	// seams: replace pkg.Name selector expressions by a local identifier
	if len(c.cfg.Seams) > 0 {
		astutil.Apply(c.file, func(cur *astutil.Cursor) bool {
			v, ok := cur.Node().(*ast.SelectorExpr)
			if !ok {
				return true
			}
			id, ok := v.X.(*ast.Ident)
			if !ok {
				return true
			}
			p := c.pkgOf(id)
			if p == "" {
				return true
			}
			for _, r := range c.cfg.Seams {
				if r.RecvType == "" && r.Callee == p && r.Name == v.Sel.Name && (r.InPkg == "" || strings.HasSuffix(c.pkg.PkgPath, r.InPkg)) {
					if i := strings.Index(r.Replace, "."); i > 0 {
						// "simrt.Name": a function of the simulation runtime with the same signature
						cur.Replace(sel(r.Replace[:i], r.Replace[i+1:]))
						if r.Replace[:i] == "simrt" {
							c.needRT = true
						}
					} else {
						cur.Replace(ast.NewIdent(r.Replace))
					}
					c.st.seam++
					return false
				}
			}
			return true
		}, nil)
	}
	// Pass B: statement-level rewrites.
	for _, d := range c.file.Decls {
		fd, ok := d.(*ast.FuncDecl)
		if !ok {
			// function literals in package-level initialisers
			c.fn = "init"
			c.walkStmts(d)
			continue
		}
		c.fn = fd.Name.Name
		if fd.Recv != nil && len(fd.Recv.List) > 0 {
			t := fd.Recv.List[0].Type
			if s, ok := t.(*ast.StarExpr); ok {
				t = s.X
			}
			if ix, ok := t.(*ast.IndexExpr); ok {
				t = ix.X
			}
			if id, ok := t.(*ast.Ident); ok {
				c.fn = id.Name + "." + fd.Name.Name
			}
		}
		if fd.Body != nil {
			c.walkStmts(fd.Body)
		}
	}
	changed := *c.st != before
	if !changed {
		return false
	}
	// comments: keep only those before the package clause (build constraints)
	var keep []*ast.CommentGroup
	for _, cg := range c.file.Comments {
		if cg.End() < c.file.Package {
			keep = append(keep, cg)
		}
	}
	c.file.Comments = keep
	ast.Inspect(c.file, func(n ast.Node) bool {
		switch v := n.(type) {
		case *ast.FuncDecl:
			v.Doc = nil
		case *ast.GenDecl:
			v.Doc = nil
		case *ast.Field:
			v.Doc, v.Comment = nil, nil
		case *ast.ValueSpec:
			v.Doc, v.Comment = nil, nil
		case *ast.TypeSpec:
			v.Doc, v.Comment = nil, nil
		case *ast.ImportSpec:
			v.Doc, v.Comment = nil, nil
		}
		return true
	})
	if c.needRT {
		astutil.AddImport(c.fset, c.file, "verifsim/simrt")
	}
	if c.needSync {
		astutil.AddImport(c.fset, c.file, "verifsim/simsync")
		if !astutil.UsesImport(c.file, "sync") {
			astutil.DeleteImport(c.fset, c.file, "sync")
		}
	}
	if c.needOS {
		astutil.AddImport(c.fset, c.file, "verifsim/simos")
		if !astutil.UsesImport(c.file, "os") {
			astutil.DeleteImport(c.fset, c.file, "os")
		}
	}
	for _, r := range c.cfg.Seams {
		if !astutil.UsesImport(c.file, r.Callee) {
			// the import may have become unused
			for _, im := range c.file.Imports {
				if im != nil && im.Path != nil && strings.Trim(im.Path.Value, `"`) == r.Callee {
					if im.Name != nil {
						astutil.DeleteNamedImport(c.fset, c.file, im.Name.Name, r.Callee)
					} else {
						astutil.DeleteImport(c.fset, c.file, r.Callee)
					}
					break
				}
			}
		}
	}
	return true
}

// rewriteCall handles errgroup.Go / WaitGroup.Go / time.AfterFunc wrapping and
// bolt transaction bodies.
func (c *fileCtx) rewriteCall(ce *ast.CallExpr) {
	o := c.calleeObj(ce)
	if o == nil {
		return
	}
	if o.Pkg() != nil && o.Pkg().Path() == "time" && o.Name() == "AfterFunc" && len(ce.Args) == 2 {
		if _, isFn := o.(*types.Func); isFn {
			if rp, _ := recvTypeName(o); rp == "" {
				c.fnCtx(ce)
				ce.Args[1] = call(sel("simrt", "WrapF"), lit(c.siteAt("afterfunc", ce)), ce.Args[1])
				c.needRT = true
				c.st.wrap++
			}
		}
		return
	}
	rp, rt := recvTypeName(o)
	switch {
	case o.Name() == "Go" && strings.HasSuffix(rp, "x/sync/errgroup") && rt == "Group" && len(ce.Args) == 1:
		ce.Args[0] = call(sel("simrt", "WrapE"), lit(c.siteAt("eg", ce)), ce.Args[0])
		c.needRT = true
		c.st.wrap++
	case o.Name() == "Go" && rp == "sync" && rt == "WaitGroup" && len(ce.Args) == 1:
		ce.Args[0] = call(sel("simrt", "WrapF"), lit(c.siteAt("wg", ce)), ce.Args[0])
		c.needRT = true
		c.st.wrap++
	case (o.Name() == "Update" || o.Name() == "View" || o.Name() == "Batch") && strings.HasSuffix(rp, "bbolt") && rt == "DB" && len(ce.Args) == 1:
		if fl, ok := ce.Args[0].(*ast.FuncLit); ok {
			pre := []ast.Stmt{
				&ast.AssignStmt{Lhs: []ast.Expr{ast.NewIdent("__np")}, Tok: token.DEFINE, Rhs: []ast.Expr{call(sel("simrt", "NoParkBegin"))}},
				&ast.DeferStmt{Call: call(sel("simrt", "NoParkEnd"), ast.NewIdent("__np"))},
			}
			fl.Body.List = append(pre, fl.Body.List...)
			c.needRT = true
			c.st.bolt++
		} else {
			c.warn = append(c.warn, fmt.Sprintf("%s: bolt %s with non-literal body", c.fset.Position(ce.Pos()), o.Name()))
		}
	}
	if rt != "" {
		for _, r := range c.cfg.Seams {
			if r.RecvType == rt && r.Callee == rp && r.Name == o.Name() && (r.InPkg == "" || strings.HasSuffix(c.pkg.PkgPath, r.InPkg)) {
				if se, ok := ce.Fun.(*ast.SelectorExpr); ok {
					ce.Args = append([]ast.Expr{se.X}, ce.Args...)
					ce.Fun = ast.NewIdent(r.Replace)
					c.st.seam++
					return
				}
			}
		}
	}
}

func (c *fileCtx) fnCtx(n ast.Node) {}

// siteAt names a site by the enclosing top-level declaration found by position.
func (c *fileCtx) siteAt(kind string, n ast.Node) string {
	name := "init"
	for _, d := range c.file.Decls {
		if d.Pos() <= n.Pos() && n.End() <= d.End() {
			if fd, ok := d.(*ast.FuncDecl); ok {
				name = fd.Name.Name
				if fd.Recv != nil && len(fd.Recv.List) > 0 {
					t := fd.Recv.List[0].Type
					if s, ok := t.(*ast.StarExpr); ok {
						t = s.X
					}
					if id, ok := t.(*ast.Ident); ok {
						name = id.Name + "." + name
					}
				}
			}
		}
	}
	k := name + "." + kind
	i := c.ctr[k]
	c.ctr[k] = i + 1
	return fmt.Sprintf("%s.%s#%d", c.pkg.Name, k, i)
}

// walkStmts visits every statement list below n and rewrites it.
func (c *fileCtx) walkStmts(n ast.Node) {
	ast.Inspect(n, func(x ast.Node) bool {
		switch v := x.(type) {
		case *ast.BlockStmt:
			if !c.gen[v] {
				v.List = c.rewriteList(v.List)
			}
		case *ast.CaseClause:
			if !c.gen[v] {
				v.Body = c.rewriteList(v.Body)
			}
		case *ast.CommClause:
			if !c.gen[v] {
				v.Body = c.rewriteList(v.Body)
				if v.Comm != nil { // not the default clause
					v.Body = append([]ast.Stmt{c.resumeStmt()}, v.Body...)
				}
			}
		}
		return true
	})
}

func (c *fileCtx) tmpName() string {
	c.tmp++
	return fmt.Sprintf("__v%d", c.tmp)
}

func (c *fileCtx) rewriteList(list []ast.Stmt) []ast.Stmt {
	var out []ast.Stmt
	for _, s := range list {
		lbl, inner := (*ast.LabeledStmt)(nil), s
		if l, ok := s.(*ast.LabeledStmt); ok {
			lbl, inner = l, l.Stmt
		}
		var repl []ast.Stmt
		if _, isSel := inner.(*ast.SelectStmt); isSel && lbl != nil {
			c.warn = append(c.warn, fmt.Sprintf("%s: labeled select left as is", c.fset.Position(inner.Pos())))
			c.st.skipped++
			repl = []ast.Stmt{inner}
		} else {
			repl = c.rewriteStmt(inner)
		}
		if lbl != nil {
			// the label stays on the loop statement if there is one
			at := 0
			for i, r := range repl {
				switch r.(type) {
				case *ast.RangeStmt, *ast.ForStmt:
					at = i
				}
			}
			lbl.Stmt = repl[at]
			repl[at] = lbl
		}
		out = append(out, repl...)
	}
	return out
}

func (c *fileCtx) rewriteStmt(s ast.Stmt) []ast.Stmt {
	switch v := s.(type) {
	case *ast.GoStmt:
		return c.rewriteGo(v)
	case *ast.SelectStmt:
		return c.rewriteSelect(v)
	case *ast.RangeStmt:
		t := c.info.TypeOf(v.X)
		if t != nil {
			switch t.Underlying().(type) {
			case *types.Map:
				return c.rewriteMapRange(v)
			case *types.Chan:
				v.Body.List = append([]ast.Stmt{c.resumeStmt()}, v.Body.List...)
				return []ast.Stmt{v, c.resumeStmt()}
			}
		}
		return []ast.Stmt{v}
	case *ast.ExprStmt:
		if c.exprBlocks(v.X) {
			return []ast.Stmt{v, c.resumeStmt()}
		}
	case *ast.SendStmt:
		return []ast.Stmt{v, c.resumeStmt()}
	case *ast.AssignStmt:
		for _, r := range v.Rhs {
			if c.exprBlocks(r) {
				return []ast.Stmt{v, c.resumeStmt()}
			}
		}
		if c.isRacy() {
			if r := c.rewriteRacyAssign(v); r != nil {
				return r
			}
		}
	case *ast.DeclStmt:
		if c.exprBlocks(v.Decl) {
			return []ast.Stmt{v, c.resumeStmt()}
		}
	case *ast.IfStmt:
		if v.Init != nil && c.exprBlocks(v.Init) {
			init := v.Init
			v.Init = nil
			b := &ast.BlockStmt{List: []ast.Stmt{init, c.resumeStmt(), v}}
			c.gen[b] = true
			return []ast.Stmt{b}
		}
		if c.exprBlocks(v.Cond) {
			c.st.skipped++
			c.warn = append(c.warn, fmt.Sprintf("%s: blocking expression in if condition", c.fset.Position(v.Pos())))
		}
	case *ast.ReturnStmt:
		blocks := false
		for _, r := range v.Results {
			if c.exprBlocks(r) {
				blocks = true
			}
		}
		if blocks {
			return c.rewriteReturn(v)
		}
	case *ast.SwitchStmt:
		if (v.Init != nil && c.exprBlocks(v.Init)) || (v.Tag != nil && c.exprBlocks(v.Tag)) {
			c.st.skipped++
			c.warn = append(c.warn, fmt.Sprintf("%s: blocking expression in switch header", c.fset.Position(v.Pos())))
		}
	case *ast.ForStmt:
		if c.exprBlocks(v.Cond) || (v.Init != nil && c.exprBlocks(v.Init)) || (v.Post != nil && c.exprBlocks(v.Post)) {
			c.st.skipped++
			c.warn = append(c.warn, fmt.Sprintf("%s: blocking expression in for header", c.fset.Position(v.Pos())))
		}
	}
	return []ast.Stmt{s}
}

func (c *fileCtx) isRacy() bool {
	for _, r := range c.cfg.Racy {
		if strings.Contains(c.pkg.PkgPath, r) {
			return true
		}
	}
	return false
}

// simpleOperand: an identifier or a selector chain of identifiers (safe to evaluate twice).
func simpleOperand(e ast.Expr) bool {
	switch v := e.(type) {
	case *ast.Ident:
		return true
	case *ast.SelectorExpr:
		return simpleOperand(v.X)
	case *ast.ParenExpr:
		return simpleOperand(v.X)
	}
	return false
}

func mentions(e ast.Expr, obj types.Object, info *types.Info) bool {
	found := false
	ast.Inspect(e, func(n ast.Node) bool {
		if id, ok := n.(*ast.Ident); ok && info.Uses[id] == obj {
			found = true
		}
		return !found
	})
	return found
}

// rewriteRacyAssign models unsynchronised shared memory (see config.Racy).
func (c *fileCtx) rewriteRacyAssign(v *ast.AssignStmt) []ast.Stmt {
	if len(v.Lhs) != 1 || len(v.Rhs) != 1 || v.Tok == token.DEFINE {
		return nil
	}
	// (a) map element write
	if ix, ok := v.Lhs[0].(*ast.IndexExpr); ok && simpleOperand(ix.X) {
		if t := c.info.TypeOf(ix.X); t != nil {
			if _, isMap := t.Underlying().(*types.Map); isMap {
				tmp := c.tmpName()
				c.needRT = true
				c.st.racy++
				return []ast.Stmt{
					assign(token.DEFINE, []ast.Expr{ast.NewIdent(tmp)}, call(sel("simrt", "MapWriteBegin"), ix.X, lit(c.siteAt("mapwrite", v)))),
					v,
					&ast.ExprStmt{X: call(sel("simrt", "MapWriteEnd"), ast.NewIdent(tmp))},
				}
			}
		}
		return nil
	}
	// (b) read-modify-write of a variable captured by the enclosing function literal
	id, ok := v.Lhs[0].(*ast.Ident)
	if !ok || id.Name == "_" {
		return nil
	}
	obj, _ := c.info.Uses[id].(*types.Var)
	if obj == nil || obj.IsField() || obj.Parent() == nil || obj.Parent() == c.pkg.Types.Scope() {
		return nil
	}
	path, _ := astutil.PathEnclosingInterval(c.file, v.Pos(), v.End())
	var fl *ast.FuncLit
	for _, n := range path {
		if f, ok := n.(*ast.FuncLit); ok {
			fl = f
			break
		}
	}
	if fl == nil || (obj.Pos() >= fl.Pos() && obj.Pos() <= fl.End()) {
		return nil
	}
	var rhs ast.Expr
	switch v.Tok {
	case token.ASSIGN:
		if !mentions(v.Rhs[0], obj, c.info) {
			return nil
		}
		rhs = v.Rhs[0]
	case token.ADD_ASSIGN, token.SUB_ASSIGN, token.MUL_ASSIGN, token.OR_ASSIGN, token.AND_ASSIGN:
		op := map[token.Token]token.Token{token.ADD_ASSIGN: token.ADD, token.SUB_ASSIGN: token.SUB, token.MUL_ASSIGN: token.MUL, token.OR_ASSIGN: token.OR, token.AND_ASSIGN: token.AND}[v.Tok]
		rhs = &ast.BinaryExpr{X: ast.NewIdent(id.Name), Op: op, Y: &ast.ParenExpr{X: v.Rhs[0]}}
	default:
		return nil
	}
	tmp := c.tmpName()
	c.needRT = true
	c.st.racy++
	return []ast.Stmt{
		assign(token.DEFINE, []ast.Expr{ast.NewIdent(tmp)}, rhs),
		&ast.ExprStmt{X: call(sel("simrt", "Resume"), lit(c.siteAt("rmw", v)))},
		assign(token.ASSIGN, []ast.Expr{ast.NewIdent(id.Name)}, ast.NewIdent(tmp)),
	}
}

func (c *fileCtx) rewriteReturn(v *ast.ReturnStmt) []ast.Stmt {
	var lhs []ast.Expr
	var pre []ast.Stmt
	if len(v.Results) == 1 {
		n := 1
		if tup, ok := c.info.TypeOf(v.Results[0]).(*types.Tuple); ok {
			n = tup.Len()
		}
		for i := 0; i < n; i++ {
			lhs = append(lhs, ast.NewIdent(c.tmpName()))
		}
		pre = append(pre, &ast.AssignStmt{Lhs: lhs, Tok: token.DEFINE, Rhs: []ast.Expr{v.Results[0]}})
	} else {
		for _, r := range v.Results {
			id := ast.NewIdent(c.tmpName())
			lhs = append(lhs, id)
			pre = append(pre, &ast.AssignStmt{Lhs: []ast.Expr{id}, Tok: token.DEFINE, Rhs: []ast.Expr{r}})
		}
	}
	// untyped nil results cannot be assigned with := ; fall back
	for _, r := range v.Results {
		if id, ok := r.(*ast.Ident); ok && id.Name == "nil" {
			c.st.skipped++
			c.warn = append(c.warn, fmt.Sprintf("%s: blocking return with nil operand", c.fset.Position(v.Pos())))
			return []ast.Stmt{v}
		}
	}
	pre = append(pre, c.resumeStmt())
	pre = append(pre, &ast.ReturnStmt{Results: lhs})
	b := &ast.BlockStmt{List: pre}
	c.gen[b] = true
	return []ast.Stmt{b}
}

func (c *fileCtx) rewriteGo(g *ast.GoStmt) []ast.Stmt {
	c.needRT = true
	c.st.gostmt++
	site := lit(c.site("go"))
	ce := g.Call
	if fl, ok := ce.Fun.(*ast.FuncLit); ok && len(ce.Args) == 0 {
		return []ast.Stmt{&ast.ExprStmt{X: call(sel("simrt", "Go"), site, fl)}}
	}
	// evaluate function value and arguments now, run later
	var pre []ast.Stmt
	var args []ast.Expr
	fn := ce.Fun
	if _, ok := fn.(*ast.FuncLit); !ok {
		if !c.isPkgFunc(fn) {
			id := ast.NewIdent(c.tmpName())
			pre = append(pre, &ast.AssignStmt{Lhs: []ast.Expr{id}, Tok: token.DEFINE, Rhs: []ast.Expr{fn}})
			fn = id
		}
	}
	for _, a := range ce.Args {
		id := ast.NewIdent(c.tmpName())
		pre = append(pre, &ast.AssignStmt{Lhs: []ast.Expr{id}, Tok: token.DEFINE, Rhs: []ast.Expr{a}})
		args = append(args, id)
	}
	inner := &ast.CallExpr{Fun: fn, Args: args, Ellipsis: ce.Ellipsis}
	body := &ast.BlockStmt{List: []ast.Stmt{&ast.ExprStmt{X: inner}}}
	c.gen[body] = true
	flit := &ast.FuncLit{Type: &ast.FuncType{Params: &ast.FieldList{}}, Body: body}
	pre = append(pre, &ast.ExprStmt{X: call(sel("simrt", "Go"), site, flit)})
	b := &ast.BlockStmt{List: pre}
	c.gen[b] = true
	return []ast.Stmt{b}
}

func (c *fileCtx) isPkgFunc(e ast.Expr) bool {
	switch v := e.(type) {
	case *ast.Ident:
		if f, ok := c.info.Uses[v].(*types.Func); ok {
			return f.Type().(*types.Signature).Recv() == nil
		}
	case *ast.SelectorExpr:
		if id, ok := v.X.(*ast.Ident); ok && c.pkgOf(id) != "" {
			return true
		}
	}
	return false
}

func (c *fileCtx) rewriteMapRange(r *ast.RangeStmt) []ast.Stmt {
	c.needRT = true
	c.st.maprange++
	var pre []ast.Stmt
	m := r.X
	if _, ok := m.(*ast.Ident); !ok {
		id := ast.NewIdent(c.tmpName())
		pre = append(pre, &ast.AssignStmt{Lhs: []ast.Expr{id}, Tok: token.DEFINE, Rhs: []ast.Expr{m}})
		m = id
	}
	isBlank := func(e ast.Expr) bool {
		if e == nil {
			return true
		}
		id, ok := e.(*ast.Ident)
		return ok && id.Name == "_"
	}
	kname := ast.NewIdent(c.tmpName())
	var body []ast.Stmt
	if !isBlank(r.Key) {
		body = append(body, &ast.AssignStmt{Lhs: []ast.Expr{r.Key}, Tok: r.Tok, Rhs: []ast.Expr{kname}})
		if r.Tok == token.DEFINE {
			body = append(body, &ast.AssignStmt{Lhs: []ast.Expr{ast.NewIdent("_")}, Tok: token.ASSIGN, Rhs: []ast.Expr{r.Key}})
		}
	}
	okn := ast.NewIdent(c.tmpName())
	var vlhs ast.Expr = ast.NewIdent("_")
	vtok := token.DEFINE
	if !isBlank(r.Value) {
		vlhs = r.Value
		if r.Tok == token.ASSIGN {
			// existing variable: need ok declared separately
			body = append(body, &ast.DeclStmt{Decl: &ast.GenDecl{Tok: token.VAR, Specs: []ast.Spec{&ast.ValueSpec{Names: []*ast.Ident{okn}, Type: ast.NewIdent("bool")}}}})
			vtok = token.ASSIGN
		}
	}
	body = append(body, &ast.AssignStmt{Lhs: []ast.Expr{vlhs, okn}, Tok: vtok, Rhs: []ast.Expr{&ast.IndexExpr{X: m, Index: kname}}})
	if !isBlank(r.Value) && r.Tok == token.DEFINE {
		body = append(body, &ast.AssignStmt{Lhs: []ast.Expr{ast.NewIdent("_")}, Tok: token.ASSIGN, Rhs: []ast.Expr{r.Value}})
	}
	body = append(body, &ast.IfStmt{Cond: &ast.UnaryExpr{Op: token.NOT, X: okn}, Body: &ast.BlockStmt{List: []ast.Stmt{&ast.BranchStmt{Tok: token.CONTINUE}}}})
	nb := &ast.BlockStmt{List: append(body, r.Body)}
	c.gen[nb] = true
	nr := &ast.RangeStmt{
		Key: ast.NewIdent("_"), Value: kname, Tok: token.DEFINE,
		X:    call(sel("simrt", "SortedKeys"), m),
		Body: nb,
	}
	return append(pre, nr)
}


func assign(tok token.Token, lhs []ast.Expr, rhs ...ast.Expr) *ast.AssignStmt {
	return &ast.AssignStmt{Lhs: lhs, Tok: tok, Rhs: rhs}
}

func intLit(i int) *ast.BasicLit { return &ast.BasicLit{Kind: token.INT, Value: fmt.Sprint(i)} }

// rewriteSelect makes the choice among ready cases a tape decision (the Go
// runtime picks pseudo-randomly and cannot be seeded): the cases are polled one
// by one in an order drawn by simrt.SelectOrder; only if none is ready does the
// task block in the original multi-way select; the chosen case's body then runs
// in a switch. Channel operands and send values are evaluated once, up front,
// in source order, as the language specifies for select.
func (c *fileCtx) rewriteSelect(sl *ast.SelectStmt) []ast.Stmt {
	c.needRT = true
	c.st.resume++
	n := 0
	dflt := -1
	for i, cl := range sl.Body.List {
		if cl.(*ast.CommClause).Comm == nil {
			dflt = i
		}
		n++
	}
	c.tmp++
	id := c.tmp
	nm := func(p string, i int) *ast.Ident { return ast.NewIdent(fmt.Sprintf("__%s%d_%d", p, id, i)) }
	idx := ast.NewIdent(fmt.Sprintf("__idx%d", id))
	var pre []ast.Stmt
	type caseInfo struct {
		comm     func() ast.Stmt // the communication statement writing into temporaries
		bodyPre  []ast.Stmt
		body     []ast.Stmt
		isDflt   bool
	}
	cases := make([]caseInfo, n)
	for i, cl := range sl.Body.List {
		cc := cl.(*ast.CommClause)
		ci := caseInfo{body: cc.Body}
		switch cm := cc.Comm.(type) {
		case nil:
			ci.isDflt = true
		case *ast.SendStmt:
			ch, val := nm("c", i), nm("s", i)
			pre = append(pre, assign(token.DEFINE, []ast.Expr{ch}, cm.Chan), assign(token.DEFINE, []ast.Expr{val}, cm.Value))
			ci.comm = func() ast.Stmt { return &ast.SendStmt{Chan: ch, Value: val} }
		case *ast.ExprStmt: // <-ch
			ue := cm.X.(*ast.UnaryExpr)
			ch := nm("c", i)
			pre = append(pre, assign(token.DEFINE, []ast.Expr{ch}, ue.X))
			ci.comm = func() ast.Stmt { return &ast.ExprStmt{X: &ast.UnaryExpr{Op: token.ARROW, X: ch}} }
		case *ast.AssignStmt: // v := <-ch ; v, ok = <-ch
			rhs := cm.Rhs[0]
			for {
				if p, ok := rhs.(*ast.ParenExpr); ok {
					rhs = p.X
					continue
				}
				break
			}
			ue := rhs.(*ast.UnaryExpr)
			ch, r, ok := nm("c", i), nm("r", i), nm("ok", i)
			pre = append(pre, assign(token.DEFINE, []ast.Expr{ch}, ue.X))
			pre = append(pre, assign(token.DEFINE, []ast.Expr{r, ok}, call(sel("simrt", "ZeroRecv"), ch)))
			pre = append(pre, assign(token.ASSIGN, []ast.Expr{ast.NewIdent("_"), ast.NewIdent("_")}, r, ok))
			ci.comm = func() ast.Stmt {
				return assign(token.ASSIGN, []ast.Expr{r, ok}, &ast.UnaryExpr{Op: token.ARROW, X: ch})
			}
			if len(cm.Lhs) == 1 {
				ci.bodyPre = append(ci.bodyPre, assign(cm.Tok, []ast.Expr{cm.Lhs[0]}, r))
			} else {
				ci.bodyPre = append(ci.bodyPre, assign(cm.Tok, []ast.Expr{cm.Lhs[0], cm.Lhs[1]}, r, ok))
			}
			if cm.Tok == token.DEFINE {
				for _, l := range cm.Lhs {
					if li, isId := l.(*ast.Ident); isId && li.Name != "_" {
						ci.bodyPre = append(ci.bodyPre, assign(token.ASSIGN, []ast.Expr{ast.NewIdent("_")}, ast.NewIdent(li.Name)))
					}
				}
			}
		}
		cases[i] = ci
	}
	pre = append(pre, assign(token.DEFINE, []ast.Expr{idx}, &ast.UnaryExpr{Op: token.SUB, X: intLit(1)}))
	setIdx := func(i int) ast.Stmt { return assign(token.ASSIGN, []ast.Expr{idx}, intLit(i)) }
	// polling loop
	var pollCases []ast.Stmt
	ncomm := 0
	for i, ci := range cases {
		if ci.isDflt {
			continue
		}
		ncomm++
		cc1 := &ast.CommClause{Comm: ci.comm(), Body: []ast.Stmt{setIdx(i)}}
		cc2 := &ast.CommClause{}
		c.gen[cc1], c.gen[cc2] = true, true
		inner := &ast.SelectStmt{Body: &ast.BlockStmt{List: []ast.Stmt{cc1, cc2}}}
		c.gen[inner.Body] = true
		k := &ast.CaseClause{List: []ast.Expr{intLit(i)}, Body: []ast.Stmt{inner}}
		c.gen[k] = true
		pollCases = append(pollCases, k)
	}
	site := c.site("select")
	iv := ast.NewIdent(fmt.Sprintf("__i%d", id))
	swb := &ast.BlockStmt{List: pollCases}
	c.gen[swb] = true
	brk := &ast.BlockStmt{List: []ast.Stmt{&ast.BranchStmt{Tok: token.BREAK}}}
	c.gen[brk] = true
	loopBody := &ast.BlockStmt{List: []ast.Stmt{
		&ast.SwitchStmt{Tag: iv, Body: swb},
		&ast.IfStmt{Cond: &ast.BinaryExpr{X: idx, Op: token.GEQ, Y: intLit(0)}, Body: brk},
	}}
	c.gen[loopBody] = true
	if ncomm > 0 {
		pre = append(pre, &ast.RangeStmt{Key: ast.NewIdent("_"), Value: iv, Tok: token.DEFINE,
			X: call(sel("simrt", "SelectOrder"), lit(site), intLit(n)), Body: loopBody})
	}
	// blocking fallback
	var fb ast.Stmt
	if dflt >= 0 {
		fb = setIdx(dflt)
	} else {
		var ccs []ast.Stmt
		for i, ci := range cases {
			cc := &ast.CommClause{Comm: ci.comm(), Body: []ast.Stmt{setIdx(i)}}
			c.gen[cc] = true
			ccs = append(ccs, cc)
		}
		sb := &ast.BlockStmt{List: ccs}
		c.gen[sb] = true
		fb = &ast.SelectStmt{Body: sb}
	}
	fbb := &ast.BlockStmt{List: []ast.Stmt{fb}}
	c.gen[fbb] = true
	pre = append(pre, &ast.IfStmt{Cond: &ast.BinaryExpr{X: idx, Op: token.LSS, Y: intLit(0)}, Body: fbb})
	pre = append(pre, &ast.ExprStmt{X: call(sel("simrt", "Resume"), lit(site))})
	// dispatch
	var dcs []ast.Stmt
	for i, ci := range cases {
		k := &ast.CaseClause{List: []ast.Expr{intLit(i)}, Body: append(ci.bodyPre, ci.body...)}
		dcs = append(dcs, k)
	}
	dk := &ast.CaseClause{Body: []ast.Stmt{&ast.ExprStmt{X: call(ast.NewIdent("panic"), lit("simrt: select dispatch"))}}}
	c.gen[dk] = true
	dcs = append(dcs, dk)
	pre = append(pre, &ast.SwitchStmt{Tag: idx, Body: &ast.BlockStmt{List: dcs}})
	b := &ast.BlockStmt{List: pre}
	c.gen[b] = true
	return []ast.Stmt{b}
}
