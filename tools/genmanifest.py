#!/usr/bin/env python3
"""Regenerates MANIFEST.json from harness/*/meta.json (+ the not_applicable table below)."""
import json, os, glob
V = os.path.dirname(os.path.dirname(os.path.abspath(__file__)))
NA = {
 "C14": "quantifies over inputs and configurations only: the layout is a deterministic function of (tar, prioritized list, options); no schedule, clock, fault or history for a simulator to search (DESIGN.md §5)",
 "C20": "quantifies over inputs and configurations only: the label handlers are pure functions of a manifest / label map with no shared state, I/O, time or concurrency (DESIGN.md §5)",
}
props = [json.loads(l)["id"] for l in open(os.path.join(V, "properties.jsonl"))]
checks = []
claimed = set()
for pid in props:
    mp = os.path.join(V, "harness", pid, "meta.json")
    if not os.path.exists(mp):
        continue
    m = json.load(open(mp))
    if not m.get("claim", True):
        continue
    claimed.add(pid)
    checks.append({
        "property_id": pid,
        "quick_cmd": "./check %s --tier quick" % pid,
        "thorough_cmd": "./check %s --tier thorough" % pid,
        "evidence_file": "/verif/evidence/%s.json" % pid,
        "replay_cmd_template": "./check %s --replay {path}" % pid,
        "engine": "dsim",
        "level_claimed": {"category": m.get("level", "exploration"), "text": m["level_text"], "design_ref": m.get("design_ref", "DESIGN.md §4 " + pid)},
        "level_note": m["level_note"],
        "technique": m.get("technique", "deterministic simulation with fault injection: seeded schedule/fault search over the real code in a synctest bubble, oracle over the recorded history"),
    })
na = []
for pid in props:
    if pid in claimed:
        continue
    reason = NA.get(pid, "not yet covered by a check in this tree (harness under construction); no verdict is claimed")
    na.append({"property_id": pid, "reason": reason})
man = {
 "version": 1,
 "setup_cmd": "./setup.sh",
 "hooks": {
   "guard": "verif (build-time instrumentation of a scratch copy; no guarded source lives in /repo)",
   "enable": "./check copies /repo's working tree to /tmp/verif-scratch, rewrites it with tools/instrument (sync primitives, go statements, selects, map ranges, os calls, named seams -> verifsim) and builds the harness against the copy; /repo is never modified",
   "baseline_off_cmd": "cd /repo && for m in . estargz cmd ipfs; do (cd $m && GOFLAGS=-mod=mod GOPROXY=off go test -vet=off -count=1 -timeout 25m ./...); done",
   "source_commits": [],
   "add_only": True,
 },
 "engines": [{"name": "dsim", "path": "/verif/simrt", "serves_properties": sorted(claimed),
   "kind_free_text": "deterministic simulator: testing/synctest bubble (fake clock, quiescence) + label-sorted token scheduler driven by a per-stream seeded tape + AST instrumentation of a scratch copy of the repository + tape shrinker + replay"}],
 "checks": checks,
 "not_applicable": na,
 "notes": "See DESIGN.md. Fix commits in /repo are listed in KNOWN_FINDINGS.json (status fixed).",
}
json.dump(man, open(os.path.join(V, "MANIFEST.json"), "w"), indent=1)
print("claimed:", sorted(claimed))
