#!/bin/bash
# seedrun.sh <ID> <seed-name> <worktree> [tier]  : applies <worktree>/_out/patch.diff to /repo, runs ./check <ID>, reverts.
set -u
id=$1; name=$2; wt=$3; tier=${4:-quick}
cd /verif
if [ -n "${SEED_IN_WORKTREE:-}" ]; then
  # /repo is in use by a long run: check the worktree (patch applied there) with its own scratch and binaries
  VERIF_REPO=$wt VERIF_SCRATCH=/tmp/verif-scratch-seed VERIF_BIN=/tmp/verif-bin-seed ./check $id --tier $tier --no-evidence > /tmp/seedrun-$name.log 2>&1; rc=$?
else
  [ -z "$(git -C /repo status --porcelain)" ] || { echo "/repo dirty"; exit 2; }
  git -C /repo apply "$wt/_out/patch.diff" || exit 2
  ./check $id --tier $tier --no-evidence > /tmp/seedrun-$name.log 2>&1; rc=$?
  git -C /repo checkout -- .
fi
echo "check $id on seed $name: exit=$rc"
grep -E "VIOLATION|KNOWN-FINDING|held|runs" /tmp/seedrun-$name.log | head -8
exit 0
