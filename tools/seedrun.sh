#!/bin/bash
# seedrun.sh <ID> <seed-name> <worktree> [tier]  : applies <worktree>/_out/patch.diff to /repo, runs ./check <ID>, reverts.
set -u
id=$1; name=$2; wt=$3; tier=${4:-quick}
cd /verif
[ -z "$(git -C /repo status --porcelain)" ] || { echo "/repo dirty"; exit 2; }
git -C /repo apply "$wt/_out/patch.diff" || exit 2
./check $id --tier $tier --no-evidence > /tmp/seedrun-$name.log 2>&1; rc=$?
git -C /repo checkout -- .
echo "check $id on seed $name: exit=$rc"
grep -E "VIOLATION|KNOWN-FINDING|held|runs" /tmp/seedrun-$name.log | head -8
exit 0
