#!/bin/bash
# runall.sh <quick|thorough> [ids...]: run the registered commands one after another, print one line per check.
tier=${1:-quick}; shift
ids=${@:-C01 C02 C03 C04 C05 C06 C07 C08 C09 C10 C11 C12 C13 C15 C16 C17 C18 C19}
cd /verif
for id in $ids; do
  start=$(date +%s)
  out=$(./check $id --tier $tier 2>&1); rc=$?
  echo "$id rc=$rc $(( $(date +%s) - start ))s $(echo "$out" | grep -v '^KNOWN-FINDING' | tail -1 | cut -c1-200)"
  echo "$out" | grep -c '^KNOWN-FINDING' | sed "s/^/   known-finding lines: /"
done
