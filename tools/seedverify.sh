#!/bin/bash
# seedverify.sh <worktree> <pkgdir-of-demo> <demo-file-in-_out> <run-regex> <pkgs-to-test...>
# Confirms: with patch: build + existing tests pass, demo fails; without patch: demo passes.
set -u
wt=$1; pkg=$2; demo=$3; rx=$4; shift 4
export GOFLAGS=-mod=mod GOPROXY=off
cd "$wt" || exit 2
mod=.
case "$pkg" in estargz*) mod=estargz;; cmd*) mod=cmd;; esac
rel=${pkg#$mod/}; [ "$mod" = . ] && rel=$pkg; [ "$pkg" = "$mod" ] && rel=.
echo "== patch applied: $(git diff --stat | tail -1)"
(cd $mod && go build ./... ) || { echo "BUILD FAILED"; exit 1; }
(cd $mod && go test -count=1 "$@") || { echo "EXISTING TESTS FAIL WITH PATCH"; exit 1; }
cp _out/$demo $pkg/zz_seed_demo_test.go
(cd $mod && go test -count=1 -run "$rx" ./$rel/ >/tmp/seed-demo-with.log 2>&1); with=$?
git apply -R _out/patch.diff
(cd $mod && go test -count=1 -run "$rx" ./$rel/ >/tmp/seed-demo-without.log 2>&1); without=$?
git apply _out/patch.diff
rm -f $pkg/zz_seed_demo_test.go
echo "demo with patch exit=$with (want !=0); without patch exit=$without (want 0)"
tail -5 /tmp/seed-demo-with.log
[ $with -ne 0 ] && [ $without -eq 0 ] && echo SEED-CONFIRMED || { echo SEED-NOT-CONFIRMED; tail -20 /tmp/seed-demo-without.log; exit 1; }
