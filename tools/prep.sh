#!/bin/bash
# prep.sh <scratch-dir>: copy the working tree of /repo (or $VERIF_REPO) to <scratch-dir>/repo and instrument it.
set -e
export GOFLAGS=-mod=mod GOPROXY=off GOSUMDB=off GOTOOLCHAIN=local PATH=/opt/veriftools/go1.26.8/bin:$PATH
S="$1"
CFG="${2:-/verif/tools/seams.json}"
rm -rf "$S/repo"
mkdir -p "$S"
rsync -a --exclude .git --exclude _out "${VERIF_REPO:-/repo}/" "$S/repo/"
cd "$S/repo"
for m in . estargz cmd; do (cd $m && go mod edit -require=verifsim@v0.0.0 -replace=verifsim=/verif/simrt); done
/verif/bin/instrument -config "$CFG" -dir "$S/repo/estargz" -pkgs ./...
/verif/bin/instrument -config "$CFG" -dir "$S/repo" -pkgs ./... -exclude /analyzer,/script
/verif/bin/instrument -config "$CFG" -dir "$S/repo/cmd" -pkgs ./containerd-stargz-grpc/db/...,./containerd-stargz-grpc/fsopts/...
