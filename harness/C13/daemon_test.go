package c13

import (
	"context"
	"fmt"
	"path/filepath"
	"sort"
	"strings"
	"testing"
	"time"

	"github.com/containerd/stargz-snapshotter/fs/config"
	"github.com/containerd/stargz-snapshotter/zzverif/common"
	"verifsim/hx"
	"verifsim/simreg"
	"verifsim/simrt"
)

// runDaemon is the campaign of C13 that goes through the real filesystem (fs/fs.go): Mount, Check and
// on-demand reads are the prioritized tasks, the layers' background fetches the background tasks, of
// the filesystem's own task manager. Once prioritized work has stopped, every background fetch must
// run to completion: each mounted layer ends up readable offline. The image also lists layers the
// registry cannot serve as eStargz (their pre-resolution inside Mount fails), mounts are refused or
// fail in the FUSE stage, connectivity checks fail during outages - none of which may leave the
// manager believing that prioritized work is still going on.
func runDaemon(t *testing.T, tape *simrt.Tape) *hx.Outcome {
	out := &hx.Outcome{Counters: map[string]int{"campaign.daemon": 1}}
	c := func(n int) int { return tape.Draw("cfg.daemon", n) }
	nLayers := 1 + c(3)
	img, err := common.GenImage(func(n int) int { return tape.Draw("gen.daemon", n) }, tape.Seed, nLayers, []int{8, 17, 64}[c(3)])
	if err != nil {
		out.InfraErr = "image: " + err.Error()
		return out
	}
	fcfg := config.Config{
		HTTPCacheType: []string{"memory", ""}[c(2)], FSCacheType: []string{"memory", ""}[c(2)], PrefetchTimeoutSec: 5,
		ResolveResultEntryTTLSec: 600, NoPrefetch: c(3) == 0,
		BlobConfig:           config.BlobConfig{ChunkSize: []int64{16, 64, 50000}[c(3)], FetchTimeoutSec: 30, MaxRetries: 1, MinWaitMSec: 10, MaxWaitMSec: 100, ValidInterval: int64([]int{1, 600}[c(2)])},
		DirectoryCacheConfig: config.DirectoryCacheConfig{MaxLRUCacheEntry: 1 + c(3), MaxCacheFds: 1 + c(3), SyncAdd: c(2) == 1, Direct: c(3) == 0},
	}
	outages := c(2) == 1
	nMounters := 1 + c(3)
	extra := c(3) // layers of the image that cannot be resolved
	fuseFailDen := []int{0, 0, 5}[c(3)]
	root, cleanup := hx.RunDir()
	defer cleanup()
	mounts := 0
	res := simrt.Run(t, tape, simrt.Options{MaxSteps: 4000000, HangAfter: 6 * time.Hour}, func(s *simrt.Sim, mt *simrt.Task) {
		s.Procs = 1
		s.UseDisk(simrt.DiskCfg{Yield: false})
		reg := simreg.New(s, simreg.Config{Base: simreg.Personality(s.Tape.Draw("cfg.daemon", int(simreg.NumPersonalities)))})
		dm, err := common.NewDaemon(s, filepath.Join(root, "stargz"), img, fcfg, reg, nil, s.Tape.Draw("cfg.daemon", 2) == 1)
		if err != nil {
			s.Fail("harness", "NewFilesystem: %v", err)
			return
		}
		dm.FuseFailDen = fuseFailDen
		for i := 0; i < extra; i++ {
			dm.ExtraNeighbours = append(dm.ExtraNeighbours, "sha256:"+strings.Repeat(fmt.Sprintf("%02x", 0xe0+i), 32))
		}
		ctx := context.Background()
		live := map[string]int{} // mountpoint -> layer
		var ts []*simrt.Task
		for m := 0; m < nMounters; m++ {
			m := m
			ts = append(ts, s.Go(fmt.Sprintf("mounter%d", m), func(t *simrt.Task) {
				dr := func(n int) int { return s.Tape.Draw(t.Label, n) }
				for r := 0; r < 1+dr(3) && !s.Failed(); r++ {
					li := dr(nLayers)
					L := img[li]
					mp := filepath.Join(root, "mnt", fmt.Sprintf("m%dr%d", m, r), "fs")
					variant := []string{"ok", "ok", "ok", "ok", "wrong-toc", "none"}[dr(6)]
					err := dm.FS.Mount(ctx, mp, dm.Labels(li, variant))
					mounts++
					s.Event("m%d mount l%d labels=%s -> ok=%v", m, li, variant, err == nil)
					if err != nil {
						continue
					}
					if variant != "ok" {
						dm.FS.Unmount(ctx, mp)
						continue
					}
					live[mp] = li
					for o := 0; o < dr(4) && !s.Failed(); o++ {
						switch dr(3) {
						case 0:
							if len(L.Names) > 0 {
								p := L.Names[dr(len(L.Names))]
								dm.ReadFile(mp, p, len(L.Files[p])+1)
							}
						case 1:
							dm.FS.Check(ctx, mp, dm.Labels(li, "ok"))
						default:
							t.Sleep(time.Duration(1+dr(8)) * time.Second)
						}
					}
					if dr(4) == 0 {
						if dm.FS.Unmount(ctx, mp) == nil {
							delete(live, mp)
						}
					}
				}
			}))
		}
		if outages {
			ts = append(ts, s.Go("network", func(t *simrt.Task) {
				for i := 0; i < 1+s.Tape.Draw(t.Label, 3); i++ {
					t.Sleep(time.Duration(1+s.Tape.Draw(t.Label, 6)) * time.Second)
					reg.Down = true
					t.Sleep(time.Duration(1+s.Tape.Draw(t.Label, 5)) * time.Second)
					reg.Down = false
				}
			}))
		}
		mt.Join(ts...)
		if s.Failed() {
			return
		}
		// prioritized work has stopped and the registry is healthy: within the silence period plus the time
		// the (retried) background tasks need, every layer that is still mounted is fetched completely
		dm.Quiet, reg.Down, reg.NoFaults = true, false, true
		wait := 15 * time.Minute
		mt.Sleep(wait)
		if outages {
			return // a background fetch that met an outage has failed for good (it runs once per layer): nothing to demand
		}
		// the background fetch of a layer is complete when all its files read with the registry unreachable
		reg.Down = true
		var mps []string
		for mp := range live {
			mps = append(mps, mp)
		}
		sort.Strings(mps)
		for _, mp := range mps {
			li := live[mp]
			for _, p := range img[li].Names {
				if _, err := dm.ReadFile(mp, p, len(img[li].Files[p])+1); err != nil {
					s.Fail("background-task-never-completes", "no Mount, Check or read has run for %v against a healthy registry, yet the background fetch of mounted layer %d has not completed: %q cannot be read with the registry unreachable (%v); prioritized work is over, so the invoked background task must have run to completion", wait, li, p, err)
					return
				}
			}
		}
		out.Counters["daemon.layers_fully_fetched"] += len(live)
	})
	out.Res = res
	out.Counters["daemon.mounts"] += mounts
	out.Nontrivial = mounts > 0
	out.Signature = fmt.Sprintf("daemon/l%d/x%d/m%d/out%v/f%d/np%v", nLayers, extra, nMounters, outages, fuseFailDen, fcfg.NoPrefetch)
	out.Sample = map[string]any{"campaign": "daemon", "layers": nLayers, "unresolvable_neighbours": extra, "mounters": nMounters, "outages": outages, "mounts": mounts}
	return out
}
