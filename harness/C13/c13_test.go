// C13 — background tasks yield to prioritized work, stay bounded, never self-overlap.
// Real: task.BackgroundTaskManager (instrumented copy). Stub: none.
package c13

import (
	"context"
	"fmt"
	"testing"
	"time"

	"github.com/containerd/stargz-snapshotter/task"
	"verifsim/hx"
	"verifsim/simrt"
)

type ev struct {
	seq  uint64
	t    time.Duration
	kind string // doI doR doneI inv ret bs be
	who  int    // prio pair id / bg invocation id
	exec int
	canc bool
	w    time.Duration
}

type pair struct {
	doI, doR, doneI uint64
	doRT, doneIT    time.Duration
	hasDone         bool
}

func ms(n int) time.Duration { return time.Duration(n) * time.Millisecond }

func run(t *testing.T, tape *simrt.Tape) *hx.Outcome {
	if tape.Draw("cfg.campaign", 60) == 0 { // own stream: older tapes replay unchanged; these runs are ~1000x longer
		return runDaemon(t, tape)
	}
	conc := 1 + tape.Draw("cfg", 3)
	silence := []time.Duration{0, ms(10), time.Second, 5 * time.Second}[tape.Draw("cfg", 4)]
	nPrio := tape.Draw("cfg", 4)
	nBg := 1 + tape.Draw("cfg", 3)
	lateOK := tape.Draw("cfg", 2) == 1
	var evs []ev
	out := &hx.Outcome{Counters: map[string]int{}}
	res := simrt.Run(t, tape, simrt.Options{MaxSteps: 60000, HangAfter: 2 * time.Hour, NoStall: true}, func(s *simrt.Sim, mt *simrt.Task) {
		m := task.NewBackgroundTaskManager(int64(conc), silence)
		rec := func(e ev) {
			e.seq = s.Event("%s who=%d exec=%d canc=%v", e.kind, e.who, e.exec, e.canc)
			e.t = s.Now()
			evs = append(evs, e)
		}
		var ts []*simrt.Task
		pid := 0
		for c := 0; c < nPrio; c++ {
			c := c
			k := 1 + tape.Draw("cfg", 3)
			base := pid
			pid += k
			ts = append(ts, s.Go(fmt.Sprintf("prio%d", c), func(t *simrt.Task) {
				for j := 0; j < k; j++ {
					gap := []time.Duration{0, ms(1), ms(500), 3 * time.Second, 20 * time.Second}[s.Tape.Draw(t.Label, 5)]
					if gap > 0 {
						t.Sleep(gap)
					}
					id := base + j
					rec(ev{kind: "doI", who: id})
					m.DoPrioritizedTask()
					rec(ev{kind: "doR", who: id})
					dur := []time.Duration{0, ms(1), ms(200), 2 * time.Second, 30 * time.Second}[s.Tape.Draw(t.Label, 5)]
					if dur > 0 {
						t.Sleep(dur)
					} else {
						t.Yield("work")
					}
					rec(ev{kind: "doneI", who: id})
					m.DonePrioritizedTask()
				}
			}))
		}
		for b := 0; b < nBg; b++ {
			b := b
			ts = append(ts, s.Go(fmt.Sprintf("bg%d", b), func(t *simrt.Task) {
				if d := []time.Duration{0, ms(1), ms(300), 4 * time.Second}[s.Tape.Draw(t.Label, 4)]; d > 0 {
					t.Sleep(d)
				}
				exec := 0
				timeout := []time.Duration{time.Hour, time.Hour, 10 * time.Second}[s.Tape.Draw(t.Label, 3)]
				rec(ev{kind: "inv", who: b})
				m.InvokeBackgroundTask(func(ctx context.Context) {
					bt := simrt.Cur()
					me := exec
					exec++
					w := []time.Duration{ms(1), ms(100), 3 * time.Second, 15 * time.Second, 40 * time.Second}[s.Tape.Draw(t.Label, 5)]
					rec(ev{kind: "bs", who: b, exec: me, w: w})
					canc := ctx.Err() != nil
					if !canc {
						tm := time.NewTimer(w)
						select {
						case <-ctx.Done():
						case <-tm.C:
						}
						tm.Stop()
						bt.Yield("body.wake")
						canc = ctx.Err() != nil
					}
					if canc {
						// react to cancellation arbitrarily late
						n := 3
						if lateOK {
							n = 5
						}
						late := []time.Duration{0, 0, ms(5), silence + 2*time.Second, silence + 45*time.Second}[s.Tape.Draw(t.Label, n)]
						if late > 0 {
							bt.Sleep(late)
							out.Counters["late_reaction"]++
						}
						out.Counters["cancelled_exec"]++
					}
					rec(ev{kind: "be", who: b, exec: me, canc: canc})
				}, timeout)
				rec(ev{kind: "ret", who: b})
			}))
		}
		mt.Join(ts...)
		// let trailing silence-period goroutines finish
		mt.Sleep(silence + time.Second)
		check(s, evs, conc, silence, out)
	})
	out.Res = res
	out.Counters["prio_pairs"] += 0
	ncanc := out.Counters["cancelled_exec"]
	out.Nontrivial = ncanc > 0 || out.Counters["waited_for_prio"] > 0
	out.Signature = fmt.Sprintf("c%d/s%v/p%d/b%d", conc, silence, nPrio, nBg)
	out.Sample = map[string]any{"concurrency": conc, "silence": silence.String(), "prio_clients": nPrio, "bg_invocations": nBg,
		"late_reactions_allowed": lateOK, "events": compact(evs, 40)}
	return out
}

func compact(evs []ev, n int) []string {
	var o []string
	for i, e := range evs {
		if i >= n {
			o = append(o, "...")
			break
		}
		o = append(o, fmt.Sprintf("%d@%v %s(%d,%d)%v", e.seq, e.t, e.kind, e.who, e.exec, map[bool]string{true: "c", false: ""}[e.canc]))
	}
	return o
}

func check(s *simrt.Sim, evs []ev, conc int, silence time.Duration, out *hx.Outcome) {
	pairs := map[int]*pair{}
	for _, e := range evs {
		switch e.kind {
		case "doI":
			pairs[e.who] = &pair{doI: e.seq}
		case "doR":
			pairs[e.who].doR, pairs[e.who].doRT = e.seq, e.t
		case "doneI":
			p := pairs[e.who]
			p.doneI, p.doneIT, p.hasDone = e.seq, e.t, true
		}
	}
	// certainlyOpen(q, t): some pair whose Do returned before instant q and whose
	// counter decrement cannot have happened by simulated time t.
	certainlyOpen := func(q uint64, t time.Duration) bool {
		for _, p := range pairs {
			if p.doR != 0 && p.doR <= q {
				if !(p.hasDone && p.doneI <= q && t >= p.doneIT+silence) {
					return true
				}
			}
		}
		return false
	}
	// per-invocation tracking
	type execRec struct {
		bs, be   *ev
	}
	running := 0
	runningBy := map[int]int{}
	lastStart := map[int]uint64{}
	invSeq := map[int]uint64{}
	execs := map[[2]int]*execRec{}
	for i := range evs {
		e := &evs[i]
		switch e.kind {
		case "inv":
			invSeq[e.who] = e.seq
		case "bs":
			running++
			runningBy[e.who]++
			if running > conc {
				s.Fail("concurrency-bound", "%d bodies running, concurrency %d (at seq %d)", running, conc, e.seq)
				return
			}
			if runningBy[e.who] > 1 {
				s.Fail("self-overlap", "two executions of invocation %d overlap (second starts at seq %d)", e.who, e.seq)
				return
			}
			execs[[2]int{e.who, e.exec}] = &execRec{bs: e}
			// O1/O2: find the latest valid check instant in [lo, bs]
			lo := invSeq[e.who]
			if v, ok := lastStart[e.who]; ok {
				lo = v
			}
			lastStart[e.who] = e.seq
			valid := false
			var qstar uint64
			for k := i - 1; k >= 0 && evs[k].seq >= lo; k-- {
				// gap between evs[k] and evs[k+1]; latest possible time = time of evs[k+1]
				if !certainlyOpen(evs[k].seq, evs[k+1].t) {
					valid = true
					qstar = evs[k].seq
					break
				}
			}
			if !valid {
				s.Fail("start-while-prioritized", "body of invocation %d exec %d started at seq %d t=%v although a prioritized task was in progress or finished less than %v ago at every instant since seq %d",
					e.who, e.exec, e.seq, e.t, silence, lo)
				return
			}
			if certainlyOpen(e.seq, e.t) {
				out.Counters["started_in_window_then_cancel_expected"]++
			}
			execs[[2]int{e.who, e.exec}].bs = e
			// remember q* in exec field w is kept; store q* via closure map
			qstars[[2]int{e.who, e.exec}] = qstar
		case "be":
			running--
			runningBy[e.who]--
			r := execs[[2]int{e.who, e.exec}]
			if r == nil {
				continue
			}
			r.be = e
			q := qstars[[2]int{e.who, e.exec}]
			natural := r.bs.t + r.bs.w
			for id, p := range pairs {
				if p.doR > q && p.doR < e.seq && p.doRT < natural && !e.canc {
					s.Fail("not-cancelled", "body of invocation %d exec %d (start seq %d t=%v, work %v) completed uncancelled although prioritized task %d began at seq %d t=%v, after the latest instant (seq %d) at which the body could have been admitted",
						e.who, e.exec, r.bs.seq, r.bs.t, r.bs.w, id, p.doR, p.doRT, q)
					return
				}
			}
		case "ret":
			if runningBy[e.who] > 0 {
				s.Fail("running-after-return", "invocation %d returned at seq %d while one of its executions is still running", e.who, e.seq)
				return
			}
		}
	}
	for k := range qstars {
		delete(qstars, k)
	}
	// count runs where a background body had to wait for prioritized work
	for i := range evs {
		if evs[i].kind == "bs" && evs[i].t > 0 {
			for _, p := range pairs {
				if p.doR != 0 && p.doR < evs[i].seq {
					out.Counters["waited_for_prio"]++
					return
				}
			}
		}
	}
}

var qstars = map[[2]int]uint64{}

func TestC13(t *testing.T) {
	hx.Main(t, hx.Prop{
		ID: "C13",
		Rule: "each run draws concurrency 1-3, silence period {0,10ms,1s,5s}, 0-3 prioritized clients x 1-3 begin/end pairs, 1-3 concurrent InvokeBackgroundTask whose bodies take drawn simulated time and react to cancellation after a drawn delay (incl. later than silence+prioritized duration); every lock acquisition, goroutine start, wake-up and select choice in task.go is a scheduler decision. non-trivial = at least one body execution was cancelled by, or had to wait for, prioritized work; distinct = schedule hash (task label + park site per step) x configuration One run in sixty is the 'daemon' campaign through the real filesystem (fs/fs.go): Mount / Check / on-demand reads are the prioritized tasks and the layers' background fetches the background tasks of the filesystem's own task manager; the image also lists layers that cannot be resolved, mounts are refused or fail in the FUSE stage, outages make checks fail; 15 simulated minutes after the last Mount / Check / read (registry healthy throughout in the judged runs) every still-mounted layer must read completely with the registry unreachable, i.e. its background fetch has run to completion.",
		Run:  run,
		HangIsViolation: true,
		Components: map[string]string{"fs.filesystem + layer resolver + remote blob + caches (daemon campaign, 1 run in 60)": "real (instrumented copy); kernel side of FUSE and registry are stubs", "task.BackgroundTaskManager": "real (instrumented copy)", "x/sync/semaphore": "real", "clock": "simulated (testing/synctest)", "callers and bodies": "harness tasks"},
		Assumptions: []string{"time passes only when no task is runnable (no stall injection for this property, so that 'cancelled when a prioritized task begins' can be judged at the same simulated instant)"},
	})
}
