package db

import (
	"fmt"

	bolt "go.etcd.io/bbolt"
)

// bolt's Batch runs the function on a goroutine of its own (a timer or a freshly started one) and
// may coalesce it with other callers': which goroutine runs repository code, and when, is bolt's
// unseeded decision. In the instrumented copy a batch runs on the calling task with bolt's own
// semantics for a single caller: the function runs inside an update transaction with panics turned
// into errors; when it fails the transaction is rolled back and the function is run once more on its
// own ("trySolo"), whose result is returned. What is lost is only the coalescing of several callers.
func verifBatch(db *bolt.DB, fn func(*bolt.Tx) error) error {
	failed := false
	err := db.Update(func(tx *bolt.Tx) (err error) {
		defer func() {
			if p := recover(); p != nil {
				err = fmt.Errorf("panic in batch function: %v", p)
			}
			failed = err != nil
		}()
		return fn(tx)
	})
	if failed {
		return db.Update(fn)
	}
	return err
}
