package db

import bolt "go.etcd.io/bbolt"

// bolt's Batch runs the function on a goroutine of its own (a timer or a freshly started one) and
// may coalesce it with other callers': which goroutine runs repository code, and when, is bolt's
// unseeded decision. In the instrumented copy a batch is one update transaction on the calling
// task. What is lost is only bolt's write coalescing; exclusion and atomicity are the same.
func verifBatch(db *bolt.DB, fn func(*bolt.Tx) error) error {
	return db.Update(fn)
}
