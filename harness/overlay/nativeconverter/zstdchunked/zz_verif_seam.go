package zstdchunked

import (
	"context"
	"time"

	"github.com/containerd/containerd/v2/core/content"
	"github.com/containerd/errdefs"
	"verifsim/simrt"
)

// content.OpenWriter retries a locked ref after a random (unseeded) back-off; the simulated
// version retries after a fixed back-off of simulated time, so that runs replay.
func verifOpenWriter(ctx context.Context, cs content.Ingester, opts ...content.WriterOpt) (content.Writer, error) {
	for i := 0; ; i++ {
		w, err := cs.Writer(ctx, opts...)
		if err == nil || !errdefs.IsUnavailable(err) {
			return w, err
		}
		if i > 200 {
			return nil, err
		}
		tm := time.NewTimer(16 * time.Millisecond)
		select {
		case <-tm.C:
			simrt.Resume("openwriter.retry")
		case <-ctx.Done():
			tm.Stop()
			simrt.Resume("openwriter.ctx")
			return nil, err
		}
	}
}

var verifNowCtr int64

// verifNow: the simulated clock does not advance while tasks run, so two calls would return the
// same instant; the real clock has nanosecond resolution plus a monotonic reading and practically
// never does. Successive calls are made distinct.
func verifNow() time.Time {
	verifNowCtr++
	return time.Now().Add(time.Duration(verifNowCtr))
}
