package estargz

import (
	"io"

	"github.com/klauspost/compress/zstd"
)

func verifZstdNewReader(r io.Reader, opts ...zstd.DOption) (*zstd.Decoder, error) {
	return zstd.NewReader(r, append(opts, zstd.WithDecoderConcurrency(1))...)
}
