package zstdchunked

import (
	"io"

	"github.com/klauspost/compress/zstd"
)

// The zstd library sizes its worker goroutines by GOMAXPROCS, which makes the points at which a
// reading task blocks depend on the machine. In the instrumented copy the codec runs synchronously.
func verifZstdNewReader(r io.Reader, opts ...zstd.DOption) (*zstd.Decoder, error) {
	return zstd.NewReader(r, append(opts, zstd.WithDecoderConcurrency(1))...)
}

func verifZstdNewWriter(w io.Writer, opts ...zstd.EOption) (*zstd.Encoder, error) {
	return zstd.NewWriter(w, append(opts, zstd.WithEncoderConcurrency(1))...)
}
