package fusemanager

import (
	"context"
	"encoding/json"

	"github.com/containerd/stargz-snapshotter/service"
	"github.com/containerd/stargz-snapshotter/snapshot"
	"github.com/moby/sys/mountinfo"
	bolt "go.etcd.io/bbolt"
)

// Seams of the instrumented copy: the filesystem constructor and the kernel mount table are
// provided by the harness; two accessors expose the persistent record and simulate process death.
var (
	VerifNewFileSystem func(ctx context.Context, root string, config *service.Config) (snapshot.FileSystem, error)
	VerifLiveMounts    func() []string
)

func verifNewFileSystem(ctx context.Context, root string, config *service.Config, opts ...service.Option) (snapshot.FileSystem, error) {
	return VerifNewFileSystem(ctx, root, config)
}

func verifGetMounts(f mountinfo.FilterFunc) ([]*mountinfo.Info, error) {
	var out []*mountinfo.Info
	if VerifLiveMounts != nil {
		for _, mp := range VerifLiveMounts() {
			info := &mountinfo.Info{Mountpoint: mp, FSType: "fuse.stargz"}
			if f != nil {
				skip, stop := f(info)
				if !skip {
					out = append(out, info)
				}
				if stop {
					break
				}
				continue
			}
			out = append(out, info)
		}
	}
	return out, nil
}

// VerifRecords returns the persistent record: mountpoint -> labels.
func (fm *Server) VerifRecords() (map[string]map[string]string, error) {
	out := map[string]map[string]string{}
	err := fm.ms.View(func(tx *bolt.Tx) error {
		b := tx.Bucket(fuseInfoBucket)
		if b == nil {
			return nil
		}
		return b.ForEach(func(k, v []byte) error {
			mi := &fuseInfo{}
			if err := json.Unmarshal(v, mi); err != nil {
				return err
			}
			out[string(k)] = mi.Labels
			return nil
		})
	})
	return out, err
}

// VerifDie simulates the death of the manager process: the store file stays as it is.
func (fm *Server) VerifDie() { fm.ms.Close() }
