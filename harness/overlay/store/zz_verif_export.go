package store

import (
	fusefs "github.com/hanwen/go-fuse/v2/fs"
)

// VerifRoot returns the root node of the store filesystem without mounting it (harness-only
// accessor of the instrumented copy): the harness drives Lookup / Create / Rmdir in-process.
func VerifRoot(lm *LayerManager) fusefs.InodeEmbedder {
	return &rootnode{fs: &fs{layerManager: lm, nodeMap: new(idMap), layerMap: new(idMap)}}
}
