package snapshot

import (
	"context"

	"github.com/containerd/containerd/v2/core/snapshots/storage"
	"github.com/moby/sys/mountinfo"
	"verifsim/simsync"
)

// The kernel mount table is replaced in the instrumented copy: the harness owns a simulated
// table of backend mounts that survives a simulated crash as stale mounts.
var (
	VerifLiveMounts   func() []string
	VerifForceUnmount func(mountpoint string) error
)

func verifGetMounts(f mountinfo.FilterFunc) ([]*mountinfo.Info, error) {
	var out []*mountinfo.Info
	if VerifLiveMounts != nil {
		for _, mp := range VerifLiveMounts() {
			out = append(out, &mountinfo.Info{Mountpoint: mp, FSType: "fuse.stargz"})
		}
	}
	return out, nil
}

func verifUnmount(target string, flags int) error {
	if VerifForceUnmount != nil {
		return VerifForceUnmount(target)
	}
	return nil
}

// Write transactions of the metadata store: bolt serialises them with a real mutex, on which a
// simulated task must never block while it holds the scheduler's token. With VerifTxYield set the
// harness may park tasks inside a write transaction (disk calls are scheduling points), so the
// writer lock is taken first at the simulation level, where waiting is a visible task state. The
// exclusion bolt provides is unchanged: one writer at a time, readers never wait.
var (
	VerifTxYield bool
	verifTxMu    simsync.Mutex
)

type verifTx struct {
	storage.Transactor
	done bool
}

func (t *verifTx) release() {
	if !t.done {
		t.done = true
		verifTxMu.Unlock()
	}
}
func (t *verifTx) Commit() error   { err := t.Transactor.Commit(); t.release(); return err }
func (t *verifTx) Rollback() error { err := t.Transactor.Rollback(); t.release(); return err }

func verifTransactionContext(ms *storage.MetaStore, ctx context.Context, writable bool) (context.Context, storage.Transactor, error) {
	if !writable || !VerifTxYield {
		return ms.TransactionContext(ctx, writable)
	}
	verifTxMu.Lock()
	ctx2, t, err := ms.TransactionContext(ctx, true)
	if err != nil {
		verifTxMu.Unlock()
		return ctx2, t, err
	}
	return ctx2, &verifTx{Transactor: t}, nil
}
