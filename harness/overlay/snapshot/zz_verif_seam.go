package snapshot

import (
	"github.com/moby/sys/mountinfo"
)

// The kernel mount table is replaced in the instrumented copy: the harness owns a simulated
// table of backend mounts that survives a simulated crash as stale mounts.
var (
	VerifLiveMounts   func() []string
	VerifForceUnmount func(mountpoint string) error
)

func verifGetMounts(f mountinfo.FilterFunc) ([]*mountinfo.Info, error) {
	var out []*mountinfo.Info
	if VerifLiveMounts != nil {
		for _, mp := range VerifLiveMounts() {
			out = append(out, &mountinfo.Info{Mountpoint: mp, FSType: "fuse.stargz"})
		}
	}
	return out, nil
}

func verifUnmount(target string, flags int) error {
	if VerifForceUnmount != nil {
		return VerifForceUnmount(target)
	}
	return nil
}
