package resolver

import (
	"net/http"

	rhttp "github.com/hashicorp/go-retryablehttp"
)

// VerifTransport, when set, becomes the innermost transport of every client built by
// RegistryHostsFromConfig in the instrumented copy (the simulated registry instead of real sockets).
// Everything above it - go-retryablehttp, net/http's client incl. its redirect handling, the docker
// authorizer - stays real.
var VerifTransport http.RoundTripper

func verifNewClient() *rhttp.Client {
	c := rhttp.NewClient()
	if VerifTransport != nil {
		c.HTTPClient = &http.Client{Transport: VerifTransport}
	}
	return c
}
