package remote

import (
	"io"

	"verifsim/simrt"
)

// verifRandReader replaces crypto/rand.Reader (retry jitter) in the
// instrumented copy so that backoff delays are tape decisions.
var verifRandReader io.Reader = simrt.RandReader{}
