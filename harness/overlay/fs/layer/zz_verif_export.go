package layer

// VerifInstance returns the identity of the resolved layer instance behind a Layer handle
// (harness-only accessor added to the instrumented copy; nothing like it exists in /repo).
func VerifInstance(l Layer) any {
	if r, ok := l.(*layerRef); ok {
		return r.layer
	}
	return nil
}
