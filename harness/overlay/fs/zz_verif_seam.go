package fs

import (
	"sync"

	fusefs "github.com/hanwen/go-fuse/v2/fs"
	"github.com/hanwen/go-fuse/v2/fuse"
)

// Seams of the instrumented copy: the kernel side of a FUSE mount (fuse.NewServer / Serve /
// WaitMount and umount(2)) is provided by the harness, which receives the root node that would
// have been served, so that it can act as the kernel (lookups and reads through the node API).
var (
	// VerifFuseMount stands for mounting root at mountpoint; an error makes fuse.NewServer fail.
	VerifFuseMount func(mountpoint string, root fusefs.InodeEmbedder) error
	// VerifFuseUnmount stands for umount(2) of mountpoint.
	VerifFuseUnmount func(mountpoint string, flags int) error

	verifRootsMu sync.Mutex
	verifRoots   = map[fuse.RawFileSystem]fusefs.InodeEmbedder{}
)

// VerifResetGlobals forgets the process-wide metrics controller (one simulated daemon per run).
func VerifResetGlobals() {
	metricsCtr = nil
	verifRootsMu.Lock()
	verifRoots = map[fuse.RawFileSystem]fusefs.InodeEmbedder{}
	verifRootsMu.Unlock()
}

func verifNewNodeFS(root fusefs.InodeEmbedder, opts *fusefs.Options) fuse.RawFileSystem {
	raw := fusefs.NewNodeFS(root, opts)
	verifRootsMu.Lock()
	verifRoots[raw] = root
	verifRootsMu.Unlock()
	return raw
}

type verifServer struct{}

func (*verifServer) Serve()           {}
func (*verifServer) WaitMount() error { return nil }

func verifNewServer(raw fuse.RawFileSystem, mountpoint string, opts *fuse.MountOptions) (*verifServer, error) {
	verifRootsMu.Lock()
	root := verifRoots[raw]
	delete(verifRoots, raw)
	verifRootsMu.Unlock()
	if VerifFuseMount != nil {
		if err := VerifFuseMount(mountpoint, root); err != nil {
			return nil, err
		}
	}
	return &verifServer{}, nil
}

func verifFsUnmount(target string, flags int) error {
	if VerifFuseUnmount != nil {
		return VerifFuseUnmount(target, flags)
	}
	return nil
}
