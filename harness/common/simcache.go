// Package common holds harness pieces shared by several properties that need
// repository types: the recording / faulting BlobCache wrapper and the glue
// between the simulated registry and source.RegistryHosts.
package common

import (
	"errors"
	"io"
	"net/http"
	"os"
	"time"

	"github.com/containerd/containerd/v2/core/remotes/docker"
	"github.com/containerd/containerd/v2/pkg/reference"
	"github.com/containerd/stargz-snapshotter/cache"
	"github.com/containerd/stargz-snapshotter/fs/source"
	rhttp "github.com/hashicorp/go-retryablehttp"
	"github.com/sirupsen/logrus"
	"verifsim/simreg"
	"verifsim/simrt"
)

// CacheCfg configures the cache wrapper.
type CacheCfg struct {
	LossDen   int // a hit is turned into a miss with probability 1/LossDen (legal cache loss)
	FaultDen  int // Add / Commit fail with probability 1/FaultDen
	ReadFault int // ReadAt on a hit fails with probability 1/ReadFault
}

// CommitEvent is recorded for every acknowledged commit.
type CommitEvent struct {
	Seq uint64
	Key string
}

// SimCache wraps a real BlobCache: every call is a scheduling point, commits
// are recorded, and legal cache loss / cache I/O errors are injected.
type SimCache struct {
	S       *simrt.Sim
	Inner   cache.BlobCache
	Cfg     CacheCfg
	Name    string
	Commits []CommitEvent
	Invoked map[string]bool // keys whose Commit was invoked
	Acked   map[string]bool // keys whose Commit returned nil
	Gets    int
	Hits    int
	Closed  bool
	Quiet   bool // no loss / faults (quiet period)
}

func NewSimCache(s *simrt.Sim, name string, inner cache.BlobCache, cfg CacheCfg) *SimCache {
	return &SimCache{S: s, Inner: inner, Cfg: cfg, Name: name, Invoked: map[string]bool{}, Acked: map[string]bool{}}
}

func (c *SimCache) draw(n int) int {
	t := simrt.Cur()
	if t == nil || t.IsDead() {
		return 1
	}
	return c.S.Tape.Draw("cache:"+t.Label, n)
}

func (c *SimCache) Add(key string, opts ...cache.Option) (cache.Writer, error) {
	simrt.Yield("cache.Add")
	if !c.Quiet && c.Cfg.FaultDen > 0 && c.draw(c.Cfg.FaultDen) == 0 {
		c.S.Stat("fault.cache.add", 1)
		return nil, errors.New("simcache: injected Add failure")
	}
	w, err := c.Inner.Add(key, opts...)
	if err != nil {
		return nil, err
	}
	return &simWriter{c: c, key: key, Writer: w}, nil
}

func (c *SimCache) Get(key string, opts ...cache.Option) (cache.Reader, error) {
	simrt.Yield("cache.Get")
	c.Gets++
	if !c.Quiet && c.Cfg.LossDen > 0 && c.draw(c.Cfg.LossDen) == 0 {
		c.S.Stat("fault.cache.loss", 1)
		return nil, errors.New("simcache: entry lost")
	}
	r, err := c.Inner.Get(key, opts...)
	if err != nil {
		return nil, err
	}
	c.Hits++
	return &simReader{c: c, Reader: r}, nil
}

func (c *SimCache) Close() error {
	c.Closed = true
	return c.Inner.Close()
}

type simWriter struct {
	c   *SimCache
	key string
	cache.Writer
}

func (w *simWriter) Commit() error {
	simrt.Yield("cache.Commit")
	w.c.Invoked[w.key] = true
	if !w.c.Quiet && w.c.Cfg.FaultDen > 0 && w.c.draw(w.c.Cfg.FaultDen) == 0 {
		w.c.S.Stat("fault.cache.commit", 1)
		w.Writer.Abort()
		return errors.New("simcache: injected Commit failure")
	}
	if err := w.Writer.Commit(); err != nil {
		return err
	}
	seq := w.c.S.Seq()
	w.c.Acked[w.key] = true
	w.c.Commits = append(w.c.Commits, CommitEvent{Seq: seq, Key: w.key})
	return nil
}

type simReader struct {
	c *SimCache
	cache.Reader
}

func (r *simReader) ReadAt(p []byte, off int64) (int, error) {
	if !r.c.Quiet && r.c.Cfg.ReadFault > 0 && r.c.draw(r.c.Cfg.ReadFault) == 0 {
		r.c.S.Stat("fault.cache.read", 1)
		return 0, errors.New("simcache: injected read failure")
	}
	return r.Reader.ReadAt(p, off)
}

func (r *simReader) GetReaderAt() io.ReaderAt { return r.Reader.GetReaderAt() }

// Hosts returns a source.RegistryHosts shaped like the production one
// (service/resolver.RegistryHostsFromConfig): a go-retryablehttp standard client
// with a per-request timeout, whose innermost transport is the simulated registry.
func Hosts(reg *simreg.Registry, timeout time.Duration, header http.Header, plain bool) source.RegistryHosts {
	return func(ref reference.Spec) ([]docker.RegistryHost, error) {
		if plain {
			// a RegistryHosts whose client has a plain transport (no retry layer, no
			// transparent redirect following): the repository's own redirect / 403
			// refresh logic is what handles the CDN then
			return []docker.RegistryHost{{
				Client:       &http.Client{Transport: reg, Timeout: timeout},
				Host:         reg.Cfg.Host,
				Scheme:       "https",
				Path:         "/v2",
				Capabilities: docker.HostCapabilityPull | docker.HostCapabilityResolve,
				Header:       header,
			}}, nil
		}
		rc := rhttp.NewClient()
		rc.Logger = nil
		rc.HTTPClient = &http.Client{Transport: reg, Timeout: timeout}
		return []docker.RegistryHost{{
			Client:       rc.StandardClient(),
			Host:         reg.Cfg.Host,
			Scheme:       "https",
			Path:         "/v2",
			Capabilities: docker.HostCapabilityPull | docker.HostCapabilityResolve,
			Header:       header,
		}}, nil
	}
}

func init() {
	// several thousand simulated daemons per process: no log output
	if os.Getenv("VERIF_LOGS") != "" {
		logrus.SetLevel(logrus.DebugLevel) // debugging aid for replays
		return
	}
	logrus.SetOutput(io.Discard)
	logrus.SetLevel(logrus.PanicLevel)
}
