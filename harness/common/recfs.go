package common

import (
	"context"
	"errors"
	"fmt"
	"os"
	"path/filepath"
	"sort"
	"strings"
	"time"

	"verifsim/simrt"
)

// MountEvent is one backend call as seen by the recording filesystem.
type MountEvent struct {
	Seq    uint64
	Task   string
	Op     string // mount check unmount force-unmount
	MP     string
	OK     bool
	Labels map[string]string
}

// RecFS implements snapshot.FileSystem (and the simulated kernel mount table): every call is a
// scheduling point whose outcome is drawn from the tape; successful mounts are live until
// unmounted; the table survives a simulated crash as stale mounts.
type RecFS struct {
	S        *simrt.Sim
	Name     string
	Live     map[string]map[string]string // mountpoint -> labels
	Events   []MountEvent
	FailDen  int  // Mount/Check/Unmount fail with probability 1/FailDen (0 = never)
	Dirty    bool // a failing Mount may leave files in the mountpoint before failing (then cleans up, per contract)
	Latency  bool
	Quiet    bool // oracle mode: no draws, no failures
	Owner    map[string]string // mountpoint -> which RecFS instance ("generation") created it
	// Hook is called before and after every backend call (crash points of C09).
	Hook func(point string)
	// OnUnmount is called when an Unmount is about to succeed, with the labels the mount was made with.
	OnUnmount func(mountpoint string, labels map[string]string)
	Gen       string
	// Inner, if set, is the real backend (fs.NewFilesystem of the instrumented copy): the outcome of
	// Mount/Check/Unmount is then what the real filesystem returns (registry faults, verification,
	// connectivity checks) instead of a draw; the recording and the mount table stay the same.
	Inner interface {
		Mount(ctx context.Context, mountpoint string, labels map[string]string) error
		Check(ctx context.Context, mountpoint string, labels map[string]string) error
		Unmount(ctx context.Context, mountpoint string) error
	}
}

func NewRecFS(s *simrt.Sim, name string, failDen int) *RecFS {
	return &RecFS{S: s, Name: name, Live: map[string]map[string]string{}, FailDen: failDen, Owner: map[string]string{}, Gen: name}
}

func (f *RecFS) fail(t *simrt.Task, op string) bool {
	if f.Quiet || f.FailDen <= 0 || t == nil {
		return false
	}
	if f.S.Tape.Draw("recfs:"+t.Label, f.FailDen) == 0 {
		f.S.Stat("fault.backend."+op, 1)
		return true
	}
	return false
}

func (f *RecFS) rec(t *simrt.Task, op, mp string, ok bool, labels map[string]string) {
	lbl := ""
	if t != nil {
		lbl = t.Label
	}
	seq := f.S.Event("backend %s %s ok=%v", op, RelSnap(mp), ok)
	f.Events = append(f.Events, MountEvent{Seq: seq, Task: lbl, Op: op, MP: mp, OK: ok, Labels: labels})
}

// RelSnap shortens <root>/snapshots/<id>/fs to snapshots/<id>/fs for logs (ids are deterministic
// counters of the metadata store; the root is a temp name and must not be logged).
func RelSnap(p string) string {
	if i := strings.Index(p, "/snapshots/"); i >= 0 {
		r := p[i+1:]
		// temp directory names are not seeded: never let them into the event log
		if j := strings.Index(r, "/new-"); j >= 0 {
			k := strings.Index(r[j+1:], "/")
			if k < 0 {
				return r[:j] + "/new-*"
			}
			return r[:j] + "/new-*" + r[j+1+k:]
		}
		return r
	}
	return filepath.Base(p)
}

func (f *RecFS) MountX(ctx context.Context, mountpoint string, labels map[string]string) error {
	t := simrt.Cur()
	if !f.Quiet {
		t.Yield("backend.Mount")
		if f.Latency && f.S.Tape.Draw("recfs:"+t.Label, 3) == 0 {
			t.Sleep(time.Duration(1+f.S.Tape.Draw("recfs:"+t.Label, 2000)) * time.Millisecond)
		}
	}
	if _, dup := f.Live[mountpoint]; dup {
		f.rec(t, "mount", mountpoint, false, labels)
		return fmt.Errorf("recfs: %s is already mounted", RelSnap(mountpoint))
	}
	if f.Inner != nil {
		if err := f.Inner.Mount(ctx, mountpoint, labels); err != nil {
			f.S.Stat("backend.real.mount-failed", 1)
			f.rec(t, "mount", mountpoint, false, labels)
			return err
		}
	} else if f.fail(t, "mount") {
		if f.Dirty {
			// do some work on the directory, then fail and clean up as the contract demands
			p := filepath.Join(mountpoint, "partial")
			os.WriteFile(p, []byte("x"), 0600)
			t.Yield("backend.Mount.partial")
			os.Remove(p)
		}
		f.rec(t, "mount", mountpoint, false, labels)
		return errors.New("recfs: injected mount failure")
	}
	cp := map[string]string{}
	for k, v := range labels {
		cp[k] = v
	}
	f.Live[mountpoint] = cp
	f.Owner[mountpoint] = f.Gen
	f.rec(t, "mount", mountpoint, true, cp)
	return nil
}

func (f *RecFS) CheckX(ctx context.Context, mountpoint string, labels map[string]string) error {
	t := simrt.Cur()
	if !f.Quiet {
		t.Yield("backend.Check")
	}
	if _, ok := f.Live[mountpoint]; !ok {
		f.rec(t, "check", mountpoint, false, labels)
		return fmt.Errorf("recfs: %s is not mounted", RelSnap(mountpoint))
	}
	if f.Inner != nil {
		if err := f.Inner.Check(ctx, mountpoint, labels); err != nil {
			f.S.Stat("backend.real.check-failed", 1)
			f.rec(t, "check", mountpoint, false, labels)
			return err
		}
	} else if f.fail(t, "check") {
		f.rec(t, "check", mountpoint, false, labels)
		return errors.New("recfs: injected check failure")
	}
	f.rec(t, "check", mountpoint, true, labels)
	return nil
}

func (f *RecFS) UnmountX(ctx context.Context, mountpoint string) error {
	t := simrt.Cur()
	if !f.Quiet {
		t.Yield("backend.Unmount")
	}
	if _, ok := f.Live[mountpoint]; !ok {
		f.rec(t, "unmount", mountpoint, false, nil)
		return fmt.Errorf("recfs: %s isn't a mountpoint", RelSnap(mountpoint))
	}
	if f.Inner != nil {
		if err := f.Inner.Unmount(ctx, mountpoint); err != nil {
			f.S.Stat("backend.real.unmount-failed", 1)
			f.rec(t, "unmount", mountpoint, false, nil)
			return err
		}
	} else if f.fail(t, "unmount") {
		f.rec(t, "unmount", mountpoint, false, nil)
		return errors.New("recfs: injected unmount failure")
	}
	if f.OnUnmount != nil {
		f.OnUnmount(mountpoint, f.Live[mountpoint])
	}
	delete(f.Live, mountpoint)
	delete(f.Owner, mountpoint)
	f.rec(t, "unmount", mountpoint, true, nil)
	return nil
}

// LiveMounts lists the live mountpoints (sorted).
func (f *RecFS) LiveMounts() []string {
	var o []string
	for k := range f.Live {
		o = append(o, k)
	}
	sort.Strings(o)
	return o
}

// ForceUnmount is the simulated umount(2) with MNT_FORCE used when stale mounts are cleared.
func (f *RecFS) ForceUnmount(mp string) error {
	if _, ok := f.Live[mp]; !ok {
		return errors.New("recfs: not mounted")
	}
	delete(f.Live, mp)
	delete(f.Owner, mp)
	f.rec(simrt.Cur(), "force-unmount", mp, true, nil)
	return nil
}

func (f *RecFS) hook(p string) {
	if f.Hook != nil && !f.Quiet {
		f.Hook(p)
	}
}

func (f *RecFS) Mount(ctx context.Context, mountpoint string, labels map[string]string) error {
	f.hook("before backend.Mount")
	err := f.MountX(ctx, mountpoint, labels)
	f.hook("after backend.Mount")
	return err
}

func (f *RecFS) Check(ctx context.Context, mountpoint string, labels map[string]string) error {
	f.hook("before backend.Check")
	err := f.CheckX(ctx, mountpoint, labels)
	f.hook("after backend.Check")
	return err
}

func (f *RecFS) Unmount(ctx context.Context, mountpoint string) error {
	f.hook("before backend.Unmount")
	err := f.UnmountX(ctx, mountpoint)
	f.hook("after backend.Unmount")
	return err
}
