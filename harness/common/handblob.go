package common

import (
	"archive/tar"
	"bytes"
	"compress/gzip"
	"encoding/json"
	"fmt"
	"path"

	"github.com/containerd/stargz-snapshotter/estargz"
	digest "github.com/opencontainers/go-digest"
)

func gzBytes(b []byte) []byte {
	var buf bytes.Buffer
	zw, _ := gzip.NewWriterLevel(&buf, gzip.BestSpeed)
	zw.Write(b)
	zw.Close()
	return buf.Bytes()
}

// handBlob writes a blob by the documented rules: one gzip member per chunk (or several chunks per
// member with innerOffset), TOC JSON in a tar in the last member, footer with the TOC offset.
// HandBlob writes a spec-conforming eStargz blob by hand (no landmarks): see harness C05.
// It also returns the regular files it contains.
func HandBlob(d func(int) int, seed uint64) ([]byte, []string, map[string][]byte) {
	files := map[string][]byte{}
	var notes []string
	var payload bytes.Buffer
	var ents []*estargz.TOCEntry
	mt := "2021-01-01T00:00:00Z"
	cs := []int{5, 16, 40}[d(3)]
	inner := d(3) == 0 // several chunks share one stream
	if inner {
		notes = append(notes, "inner-offset-streams")
	}
	addFile := func(name string, data []byte, withDigest bool) {
		files[path.Clean(name)] = data
		first := true
		var streamStart int64 = -1
		var stream bytes.Buffer
		flush := func() {
			if stream.Len() > 0 {
				payload.Write(gzBytes(stream.Bytes()))
				stream.Reset()
			}
			streamStart = -1
		}
		if len(data) == 0 {
			e := &estargz.TOCEntry{Name: name, Type: "reg", Mode: 0644, ModTime3339: mt, NumLink: 1}
			if withDigest {
				e.Digest = digest.FromBytes(data).String()
			}
			ents = append(ents, e)
			return
		}
		for off := 0; off < len(data); off += cs {
			end := off + cs
			if end > len(data) {
				end = len(data)
			}
			e := &estargz.TOCEntry{Name: name, Type: "chunk", ChunkOffset: int64(off), ChunkDigest: digest.FromBytes(data[off:end]).String()}
			if first {
				e.Type, e.Size, e.Mode, e.ModTime3339 = "reg", int64(len(data)), 0644, mt
				if withDigest {
					e.Digest = digest.FromBytes(data).String()
				}
				first = false
			}
			if end < len(data) {
				e.ChunkSize = int64(end - off)
			}
			if inner {
				if streamStart < 0 {
					streamStart = int64(payload.Len())
				}
				e.Offset = streamStart
				e.InnerOffset = int64(stream.Len())
				stream.Write(data[off:end])
				if stream.Len() >= 3*cs {
					flush()
				}
			} else {
				e.Offset = int64(payload.Len())
				payload.Write(gzBytes(data[off:end]))
			}
			ents = append(ents, e)
		}
		flush()
	}
	dir := func(name string) *estargz.TOCEntry {
		return &estargz.TOCEntry{Name: name, Type: "dir", Mode: 0755, ModTime3339: mt}
	}
	data := func(i, n int) []byte {
		b := make([]byte, n)
		for j := range b {
			b[j] = byte('a' + (i+j*7)%26)
		}
		return b
	}
	// a fixed skeleton with drawn unusual features
	ents = append(ents, dir("etc/"))
	addFile("etc/conf", data(1, 1+d(3*cs)), d(2) == 0)
	if d(2) == 0 { // implicit parent directories
		addFile("opt/deep/er/file", data(2, 1+d(2*cs)), true)
		notes = append(notes, "implicit-parents")
	}
	if d(2) == 0 { // repeated directory entry (second one wins / merges)
		e := dir("etc/")
		if d(2) == 0 {
			e.Mode = 0700
			e.UID = 7
		} else {
			// the first listing carries the non-zero attributes, the repetition resets them
			ents[0].UID, ents[0].GID = 7, 8
			ents[0].Xattrs = map[string][]byte{"user.first": []byte("1")}
			// several attributes on the first listing, fewer (or one, or an empty one) on the repetition
			switch d(4) {
			case 1:
				ents[0].Xattrs = map[string][]byte{"user.first": []byte("1"), "user.second": []byte("2"), "user.third": []byte("3")}
			case 2:
				ents[0].Xattrs = map[string][]byte{"user.first": []byte("1"), "user.second": []byte("2"), "user.third": []byte("3")}
				e.Xattrs = map[string][]byte{"user.last": []byte("9")}
			case 3:
				ents[0].Xattrs = map[string][]byte{"user.first": []byte("1"), "user.second": []byte("2")}
				e.Xattrs = map[string][]byte{"user.empty": {}, "user.second": []byte("x")}
			}
		}
		ents = append(ents, e)
		notes = append(notes, "repeated-dir")
	}
	if d(2) == 0 { // hardlink to hardlink
		ents = append(ents, &estargz.TOCEntry{Name: "hl1", Type: "hardlink", LinkName: "etc/conf"}, &estargz.TOCEntry{Name: "hl2", Type: "hardlink", LinkName: "hl1"})
		notes = append(notes, "hardlink-chain")
	}
	if d(2) == 0 { // ./ and ../ spellings
		addFile("./dot/f", data(3, 1+d(cs)), true)
		ents = append(ents, &estargz.TOCEntry{Name: "dot/../dot/sym", Type: "symlink", LinkName: "../etc/conf", Mode: 0777, ModTime3339: mt})
		notes = append(notes, "dot-names")
	}
	if d(2) == 0 { // empty-valued xattr
		ents = append(ents, &estargz.TOCEntry{Name: "xa", Type: "reg", Mode: 0600, ModTime3339: mt, Xattrs: map[string][]byte{"user.empty": {}, "user.v": []byte("1")}})
		notes = append(notes, "empty-xattr")
	}
	if d(3) == 0 {
		ents = append(ents, &estargz.TOCEntry{Name: "dev/null", Type: "char", DevMajor: 1, DevMinor: 3, Mode: 0666, ModTime3339: mt},
			&estargz.TOCEntry{Name: "dev/", Type: "dir", Mode: 0755, ModTime3339: mt}) // directory listed after its child
		notes = append(notes, "dir-after-child")
	}
	addFile("empty", nil, d(2) == 0)
	addFile("big", data(4, 3*cs+d(cs)), true)
	j, _ := json.Marshal(&estargz.JTOC{Version: 1, Entries: ents})
	if d(2) == 0 {
		j = append(j, []byte(" \n\t\n")...)
		notes = append(notes, "trailing-whitespace")
	}
	var buf bytes.Buffer
	buf.Write(payload.Bytes())
	tocOff := int64(buf.Len())
	zw, _ := gzip.NewWriterLevel(&buf, gzip.BestSpeed)
	tw := tar.NewWriter(zw)
	tw.WriteHeader(&tar.Header{Typeflag: tar.TypeReg, Name: estargz.TOCTarName, Size: int64(len(j))})
	tw.Write(j)
	tw.Close()
	zw.Close()
	extra := append([]byte{'S', 'G', 22, 0}, []byte(fmt.Sprintf("%016xSTARGZ", tocOff))...)
	buf.Write(estargz.CreateGzipFooter(extra))
	return buf.Bytes(), notes, files
}

