package common

import (
	"archive/tar"
	"context"
	"encoding/json"
	"errors"
	"fmt"
	"path/filepath"
	"sort"
	"strings"
	"time"

	"github.com/containerd/stargz-snapshotter/estargz"
	stargzfs "github.com/containerd/stargz-snapshotter/fs"
	"github.com/containerd/stargz-snapshotter/fs/config"
	"github.com/containerd/stargz-snapshotter/fs/source"
	"github.com/containerd/stargz-snapshotter/metadata"
	fusefs "github.com/hanwen/go-fuse/v2/fs"
	"verifsim/simreg"
	"verifsim/simrt"
)

// The "whole daemon" world: the REAL filesystem behind the snapshotter (fs.NewFilesystem of the
// instrumented copy: Mount / Check / Unmount, the mountpoint -> layer table, the verification
// decision, prefetch and background fetch, the background task manager) on the real resolver over
// the simulated registry. Only the kernel side of FUSE is replaced (seam in package fs): the harness
// receives the root node that would have been served and keeps the simulated kernel mount table.

const (
	LabelRef        = "containerd.io/snapshot/remote/stargz.reference"
	LabelDigest     = "containerd.io/snapshot/remote/stargz.digest"
	LabelLayers     = "containerd.io/snapshot/remote/stargz.layers"
	LabelSkipVerify = "containerd.io/snapshot/remote/stargz.skipverify"
	DaemonRef       = "reg.example/repo/img:latest"
)

// DaemonLayer is one layer of the simulated image with its reference content.
type DaemonLayer struct {
	Built *Built
	// Evil is a valid eStargz blob of the same tree whose file contents differ (every byte inverted):
	// what a Byzantine registry may serve under the layer's digest; its TOC has another digest.
	Evil *Built
	Files map[string][]byte // regular files with content
	Names []string
}

// GenImage builds n eStargz layers (outside the simulation: builds pin GOMAXPROCS).
func GenImage(d Draw, seed uint64, n, cs int, forcePrio ...bool) ([]DaemonLayer, error) {
	var out []DaemonLayer
	for i := 0; i < n; i++ {
		spec := GenTar(d, seed+uint64(i)*7919, GenOpts{ChunkSize: cs, MaxEntries: 6})
		tb := spec.Bytes()
		m, err := Model(tb)
		if err != nil {
			return nil, err
		}
		var prio []string
		L := DaemonLayer{Files: map[string][]byte{}}
		m.Walk(func(n *MNode) {
			if n.Type == tar.TypeReg && len(n.Data) > 0 {
				L.Files[n.Path] = n.Data
			}
		})
		for p := range L.Files {
			L.Names = append(L.Names, p)
		}
		sort.Strings(L.Names)
		if len(L.Names) > 0 && d(2) == 0 {
			if p := L.Names[d(len(L.Names))]; m.ExplicitParents(p) {
				prio = []string{p}
			}
		}
		if len(forcePrio) > 0 && forcePrio[0] && len(prio) == 0 {
			for _, p := range L.Names { // (a layer with a prefetch landmark wherever the tree allows one)
				if m.ExplicitParents(p) {
					prio = []string{p}
					break
				}
			}
		}
		b, err := BuildBlob(tb, BuildCfg{ChunkSize: cs, Compression: d(2), Workers: 1, Prioritized: prio})
		if err != nil {
			return nil, err
		}
		L.Built = b
		for k := range spec.Entries {
			if e := &spec.Entries[k]; e.Type == tar.TypeReg && len(e.Data) > 0 {
				inv := make([]byte, len(e.Data))
				for x, c := range e.Data {
					inv[x] = ^c
				}
				e.Data = inv
			}
		}
		ev, err := BuildBlob(spec.Bytes(), BuildCfg{ChunkSize: cs, Compression: b.Cfg.Compression, Workers: 1, Prioritized: prio})
		if err != nil {
			return nil, err
		}
		L.Evil = ev
		out = append(out, L)
	}
	return out, nil
}

// Daemon is the real filesystem plus the simulated kernel mount table of its FUSE mounts.
type Daemon struct {
	S      *simrt.Sim
	Reg    *simreg.Registry
	FS     interface {
		Mount(ctx context.Context, mountpoint string, labels map[string]string) error
		Check(ctx context.Context, mountpoint string, labels map[string]string) error
		Unmount(ctx context.Context, mountpoint string) error
	}
	Layers []DaemonLayer
	// Kernel is the simulated kernel's table of FUSE mounts made by the filesystem: mountpoint -> root node.
	Kernel map[string]fusefs.InodeEmbedder
	// FuseFailDen: mounting through the (simulated) kernel fails with probability 1/FuseFailDen.
	FuseFailDen int
	Quiet       bool
	// NoSources makes the source lookup (labels -> registry sources) answer with an empty list.
	NoSources bool
	// ExtraNeighbours are further layer digests listed in the image (labels) that the registry does not
	// serve as eStargz (their pre-resolution fails), as in an image that mixes layer formats.
	ExtraNeighbours []string
}

// NewDaemon creates the filesystem under root (its own directory, next to the snapshotter's) and
// installs the FUSE seam. reg may be shared with an earlier instance (restart of the process).
func NewDaemon(s *simrt.Sim, root string, layers []DaemonLayer, fcfg config.Config, reg *simreg.Registry, store metadata.Store, plain bool) (*Daemon, error) {
	stargzfs.VerifResetGlobals()
	d := &Daemon{S: s, Reg: reg, Layers: layers, Kernel: map[string]fusefs.InodeEmbedder{}}
	for _, L := range layers {
		reg.Blobs[L.Built.Digest.String()] = L.Built.Blob
	}
	hosts := Hosts(reg, 20*time.Second, nil, plain)
	base := source.FromDefaultLabels(hosts)
	opts := []stargzfs.Option{stargzfs.WithGetSources(func(labels map[string]string) ([]source.Source, error) {
		if d.NoSources {
			return nil, nil // no provider knows a source right now (a legal answer of a source lookup)
		}
		return base(labels)
	})}
	if store != nil {
		opts = append(opts, stargzfs.WithMetadataStore(store))
	}
	fcfg.NoPrometheus = true
	fsys, err := stargzfs.NewFilesystem(root, fcfg, opts...)
	if err != nil {
		return nil, err
	}
	d.FS = fsys
	stargzfs.VerifFuseMount = func(mp string, rootNode fusefs.InodeEmbedder) error {
		if t := simrt.Cur(); t != nil && !d.Quiet && d.FuseFailDen > 0 && s.Tape.Draw("fuse:"+t.Label, d.FuseFailDen) == 0 {
			s.Stat("fault.fuse-mount", 1)
			s.Event("fuse mount of %s fails", RelSnap(mp))
			return errors.New("injected fuse mount failure")
		}
		if _, dup := d.Kernel[mp]; dup {
			s.Fail("fuse-mounted-twice", "the filesystem mounted %s through FUSE while its earlier FUSE mount there is still in place", RelSnap(mp))
		}
		d.Kernel[mp] = rootNode
		return nil
	}
	stargzfs.VerifFuseUnmount = func(mp string, flags int) error {
		delete(d.Kernel, mp)
		return nil
	}
	return d, nil
}

// LayerIndex returns the index of the layer with that blob digest, or -1.
func (d *Daemon) LayerIndex(dgst string) int {
	for i, L := range d.Layers {
		if L.Built.Digest.String() == dgst {
			return i
		}
	}
	return -1
}

// Labels are the snapshot labels containerd would pass for layer i. variant: "ok" (right TOC
// digest), "wrong-toc" (another digest), "skip" (no TOC digest, skip-verify label), "none" (neither),
// "ok-skip" (right TOC digest and the skip-verify label).
func (d *Daemon) Labels(i int, variant string) map[string]string {
	var all []string
	for _, L := range d.Layers {
		all = append(all, L.Built.Digest.String())
	}
	all = append(all, d.ExtraNeighbours...)
	l := map[string]string{LabelRef: DaemonRef, LabelDigest: d.Layers[i].Built.Digest.String(), LabelLayers: strings.Join(all, ",")}
	switch variant {
	case "ok":
		l[estargz.TOCJSONDigestAnnotation] = d.Layers[i].Built.TOCDigest.String()
	case "wrong-toc":
		l[estargz.TOCJSONDigestAnnotation] = d.Layers[(i+1)%len(d.Layers)].Built.TOCDigest.String()
		if len(d.Layers) == 1 {
			l[estargz.TOCJSONDigestAnnotation] = "sha256:" + strings.Repeat("ab", 32)
		}
	case "skip":
		l[LabelSkipVerify] = "true"
	case "ok-skip": // both: the digest is pinned, the skip-verify label (rpull --skip-content-verify) is only a fallback
		l[estargz.TOCJSONDigestAnnotation] = d.Layers[i].Built.TOCDigest.String()
		l[LabelSkipVerify] = "true"
	}
	return l
}

// ServedLayer tells which layer the FUSE mount at mp serves, by the digest in its state file
// (-1: not mounted, -2: state file unreadable).
func (d *Daemon) ServedLayer(mp string) int {
	rn, ok := d.Kernel[mp]
	if !ok {
		return -1
	}
	st, errno := NewTree(rn).StateJSON()
	if errno != 0 {
		return -2
	}
	for i, L := range d.Layers {
		if strings.Contains(st, L.Built.Digest.String()) {
			return i
		}
	}
	return -2
}

// ReadFile reads path p in full through the FUSE mount at mp (the harness acting as the kernel).
func (d *Daemon) ReadFile(mp, p string, max int) ([]byte, error) {
	rn, ok := d.Kernel[mp]
	if !ok {
		return nil, fmt.Errorf("%s is not mounted", filepath.Base(filepath.Dir(mp)))
	}
	tree := NewTree(rn)
	nd, _, errno := tree.Lookup(p)
	if errno != 0 {
		return nil, fmt.Errorf("lookup: %v", errno)
	}
	fh, errno := tree.Open(nd)
	if errno != 0 {
		return nil, fmt.Errorf("open: %v", errno)
	}
	defer tree.Release(fh)
	b, errno, _ := tree.Read(fh, 0, max)
	if errno != 0 {
		return nil, fmt.Errorf("read: %v", errno)
	}
	return b, nil
}

// Fetched reports the fetched size and the size of the layer served at mp, from its state file.
func (d *Daemon) Fetched(mp string) (fetched, size int64, ok bool) {
	rn, found := d.Kernel[mp]
	if !found {
		return 0, 0, false
	}
	st, errno := NewTree(rn).StateJSON()
	if errno != 0 {
		return 0, 0, false
	}
	var v struct {
		Size        int64 `json:"size"`
		FetchedSize int64 `json:"fetchedSize"`
	}
	if err := json.Unmarshal([]byte(st), &v); err != nil {
		return 0, 0, false
	}
	return v.FetchedSize, v.Size, true
}
