package common

import (
	"archive/tar"
	"bytes"
	"context"
	"fmt"
	"io"
	"os"
	"path"
	"runtime"
	"sort"
	"strings"
	"syscall"
	"time"

	"github.com/containerd/stargz-snapshotter/estargz"
	"github.com/containerd/stargz-snapshotter/estargz/zstdchunked"
	fusefs "github.com/hanwen/go-fuse/v2/fs"
	"github.com/hanwen/go-fuse/v2/fuse"
	"github.com/klauspost/compress/zstd"
	digest "github.com/opencontainers/go-digest"
)

// ---------------------------------------------------------------------------------
// tar generation and the reference model (independent of the repository: archive/tar only)

type Entry struct {
	Name   string // clean, no leading slash; directories without trailing slash
	Type   byte   // tar typeflag
	Mode   int64  // permission + setuid/setgid/sticky (tar c_ISUID etc.)
	Data   []byte
	Link   string
	Xattrs map[string]string
	UID    int
	GID    int
	Major  int64
	Minor  int64
	MTime  int64
}

type TarSpec struct {
	Entries []Entry
	Prefix  string // "", "./" — how names are spelled in the tar
	// OwnerNames writes user and group names into the headers, derived from the numeric ids so that
	// some users and groups share both number and name (root/root, user/user) and others do not
	OwnerNames bool
}

var unames = map[int]string{0: "root", 1000: "user", 65534: "nobody"}
var gnames = map[int]string{0: "root", 1000: "user", 100: "users"}

// Draw is the tape accessor handed to generators.
type Draw func(n int) int

var nameParts = []string{"a", "b", "c", "d", "bin", "etc", "lib", "x.txt", "data", "zz"}

// oddNames sort before ".", between "." and "..", or after every letter; they contain spaces and non-ASCII
var oddNames = []string{"#n#", "(m)", "+p.svelte", ".#lock", "-dash", " sp", "$R", "~t", "Zed", "\u00e9t\u00e9", ".hid", "a b", "..."}

// GenOpts bounds the generated tar.
type GenOpts struct {
	MaxEntries int
	ChunkSize  int
	Whiteouts  bool // allow .wh. entries and opaque markers (C07)
	OddNames   bool // names with bytes that sort around "." and "..", spaces, non-ASCII
	BigFiles   bool // also files of many chunks, and device numbers beyond 8 bits
	Dups       bool // duplicate names (a later entry replaces an earlier one) and the name prefixes "/" and "../"
}

func fileData(seed uint64, n int) []byte {
	b := make([]byte, n)
	x := seed*2862933555777941757 + 3037000493
	for i := range b {
		x = x*6364136223846793005 + 1442695040888963407
		// compressible but not trivial
		b[i] = "abcdefghijklmnop"[(x>>40)&15]
		if (x>>30)&7 == 0 {
			b[i] = byte(x >> 50)
		}
	}
	return b
}

// GenTar draws a tar archive: directories (some implicit), regular files with sizes
// around chunk boundaries, symlinks, hard links, devices, fifos, xattrs, owners, modes.
func GenTar(d Draw, seed uint64, o GenOpts) *TarSpec {
	if o.MaxEntries == 0 {
		o.MaxEntries = 14
	}
	if o.ChunkSize == 0 {
		o.ChunkSize = 64
	}
	ts := &TarSpec{}
	if d(3) == 0 {
		ts.Prefix = "./"
	}
	n := 1 + d(o.MaxEntries)
	used := map[string]byte{} // name -> type
	var dirs []string         // explicit or implicit directories available as parents
	var regs []string
	cs := o.ChunkSize
	sizes := []int{0, 1, cs - 1, cs, cs + 1, 2 * cs, 2*cs + 1, 3*cs - 1, cs / 2, 5 * cs}
	if o.BigFiles {
		sizes = append(sizes, 7*cs+3, 12*cs, 23*cs-1)
	}
	for i := 0; i < n; i++ {
		parent := ""
		if len(dirs) > 0 && d(3) != 0 {
			parent = dirs[d(len(dirs))]
		}
		parts := nameParts
		if o.OddNames {
			parts = append(append([]string{}, nameParts...), oddNames...)
		}
		base := parts[d(len(parts))]
		if d(4) == 0 {
			base += fmt.Sprint(d(3))
		}
		if o.OddNames && i%5 == 4 {
			base = strings.Repeat(base+"_", 120/(len(base)+1)+1) // beyond the 100 bytes of a ustar name field
		}
		name := path.Join(parent, base)
		// sometimes create the entry below a directory that has no entry of its own (implicit parent)
		if d(6) == 0 {
			name = path.Join(parent, "imp"+fmt.Sprint(d(2)), base)
		}
		if _, dup := used[name]; dup {
			continue
		}
		// all ancestors must be directories (implicit ones are fine)
		ok := true
		for p := path.Dir(name); p != "." && p != "/"; p = path.Dir(p) {
			if t, exists := used[p]; exists && t != tar.TypeDir {
				ok = false
			}
		}
		if !ok {
			continue
		}
		e := Entry{Name: name, Mode: []int64{0644, 0755, 0600, 0444, 04755, 01777, 02750}[d(7)], UID: []int{0, 0, 1000, 65534}[d(4)], GID: []int{0, 0, 1000, 100}[d(4)],
			MTime: int64(1_600_000_000 + d(1000)*3600)}
		if d(5) == 0 {
			e.Xattrs = map[string]string{"user.k" + fmt.Sprint(d(2)): "v" + fmt.Sprint(d(5))}
			if d(3) == 0 {
				e.Xattrs["security.capability"] = "\x01\x00\x00\x02"
			}
			if o.OddNames {
				e.Xattrs["user.empty"] = ""
				e.Xattrs["user.bin"] = "\x00\xff\n="
			}
		}
		if o.OddNames {
			// odd metadata too: ids beyond 2^31, the epoch and far-future times
			switch (e.MTime / 3600) % 6 {
			case 0:
				e.UID, e.GID = 2147483653, 4294967294
			case 1:
				e.MTime = []int64{0, 1, 1 << 33, 253402300799}[(e.MTime/3600/6)%4]
			}
		}
		switch k := d(12); {
		case k < 3:
			e.Type = tar.TypeDir
			dirs = append(dirs, name)
		case k < 8:
			e.Type = tar.TypeReg
			e.Data = fileData(seed+uint64(i)*131, sizes[d(len(sizes))])
			regs = append(regs, name)
		case k == 8:
			e.Type = tar.TypeSymlink
			e.Link = []string{"a", "../b", "/etc/passwd", "x.txt"}[d(4)]
			if o.OddNames && i%2 == 1 {
				e.Link = strings.Repeat("t/", 80) + e.Link // beyond the 100 bytes of a ustar link field
			}
			e.Mode = 0777
		case k == 9 && len(regs) > 0:
			e.Type = tar.TypeLink
			e.Link = regs[d(len(regs))]
			e.Xattrs = nil
		case k == 10:
			e.Type = []byte{tar.TypeChar, tar.TypeBlock}[d(2)]
			e.Major, e.Minor = int64(1+d(200)), int64(d(200))
			if o.BigFiles && e.Minor%3 == 0 {
				// device numbers beyond 8 bits (the kernel's dev_t has 12 major and 20 minor bits)
				e.Major, e.Minor = []int64{4, 259, 65, 180, 4095}[e.Minor%5], []int64{256, 300, 257, 70000, 1<<20 - 1}[e.Major%5]
			}
		default:
			e.Type = tar.TypeFifo
		}
		if e.Type == 0 {
			e.Type = tar.TypeReg
			e.Data = fileData(seed+uint64(i)*131, sizes[d(len(sizes))])
			regs = append(regs, name)
		}
		used[name] = e.Type
		// register implicit parents as directories
		for p := path.Dir(name); p != "." && p != "/"; p = path.Dir(p) {
			if _, exists := used[p]; !exists {
				used[p] = tar.TypeDir
				dirs = append(dirs, p)
			}
		}
		ts.Entries = append(ts.Entries, e)
	}
	if o.Dups {
		if x := d(4); x >= 2 {
			ts.Prefix = []string{"/", "../"}[x-2]
		}
		// a later entry of the same name replaces the earlier one (never a hard link's target: an
		// extracted link keeps the old inode, an index by name cannot)
		linked := map[string]bool{}
		for _, e := range ts.Entries {
			if e.Type == tar.TypeLink {
				linked[e.Link] = true
			}
		}
		for k, nd := 0, d(3); k < nd && len(ts.Entries) > 0; k++ {
			old := ts.Entries[d(len(ts.Entries))]
			if linked[old.Name] || (old.Type != tar.TypeReg && old.Type != tar.TypeDir) {
				continue
			}
			e := Entry{Name: old.Name, Type: old.Type, Mode: []int64{0640, 0711, 0400}[d(3)], UID: old.GID, GID: old.UID, MTime: 1_600_000_777}
			if e.Type == tar.TypeReg {
				e.Data = fileData(seed+uint64(1000+k)*977, sizes[d(len(sizes))])
				// or the name comes back as a hard link to a file listed after its first occurrence
				// (the position of the replacement matters: a link must follow its target)
				if d(2) == 0 {
					seen := false
					for _, c := range ts.Entries {
						if c.Name == old.Name {
							seen = true
						} else if seen && c.Type == tar.TypeReg && !linked[c.Name] {
							e.Type, e.Link, e.Data = tar.TypeLink, c.Name, nil
							linked[c.Name] = true
							break
						}
					}
				}
			}
			ts.Entries = append(ts.Entries, e)
		}
	}
	if o.Whiteouts {
		// OCI whiteouts (.wh.X), opaque markers, and user files named like landmarks in sub-directories
		alld := append([]string{""}, dirs...)
		for k := 0; k < 1+d(4); k++ {
			dir := alld[d(len(alld))]
			var name string
			switch d(5) {
			case 0:
				name = path.Join(dir, ".wh..wh..opq")
			case 1: // whiteout of a name that also exists as a regular file in this layer
				if len(regs) > 0 {
					r := regs[d(len(regs))]
					name = path.Join(path.Dir(r), ".wh."+path.Base(r))
				}
			case 2:
				if dir != "" {
					name = path.Join(dir, []string{".prefetch.landmark", ".no.prefetch.landmark"}[d(2)])
				}
			default:
				name = path.Join(dir, ".wh."+nameParts[d(len(nameParts))]+"w")
			}
			name = strings.TrimPrefix(name, "./")
			if name == "" || name == "." {
				continue
			}
			if _, dup := used[name]; dup {
				continue
			}
			// the target of a whiteout must not be a directory of the same layer (excluded by the property)
			base := path.Base(name)
			if strings.HasPrefix(base, ".wh.") && base != ".wh..wh..opq" {
				if t, ok := used[path.Join(path.Dir(name), strings.TrimPrefix(base, ".wh."))]; ok && t == tar.TypeDir {
					continue
				}
			}
			ok := true
			for p := path.Dir(name); p != "." && p != "/"; p = path.Dir(p) {
				if t, exists := used[p]; exists && t != tar.TypeDir {
					ok = false
				}
			}
			if !ok {
				continue
			}
			used[name] = tar.TypeReg
			ts.Entries = append(ts.Entries, Entry{Name: name, Type: tar.TypeReg, Mode: 0644, MTime: 1_600_000_000})
		}
	}
	if len(ts.Entries) == 0 {
		ts.Entries = append(ts.Entries, Entry{Name: "only", Type: tar.TypeReg, Mode: 0644, Data: fileData(seed, cs+1), MTime: 1_600_000_000})
	}
	return ts
}

// Bytes serialises the tar (PAX format, xattrs as SCHILY.xattr records).
func (ts *TarSpec) Bytes() []byte {
	var buf bytes.Buffer
	tw := tar.NewWriter(&buf)
	for _, e := range ts.Entries {
		h := &tar.Header{Name: ts.Prefix + e.Name, Typeflag: e.Type, Mode: e.Mode, Uid: e.UID, Gid: e.GID, ModTime: time.Unix(e.MTime, 0),
			Devmajor: e.Major, Devminor: e.Minor, Format: tar.FormatPAX}
		if ts.OwnerNames {
			h.Uname, h.Gname = unames[e.UID], gnames[e.GID]
		}
		switch e.Type {
		case tar.TypeDir:
			h.Name += "/"
		case tar.TypeReg:
			h.Size = int64(len(e.Data))
		case tar.TypeSymlink:
			h.Linkname = e.Link
		case tar.TypeLink:
			h.Linkname = ts.Prefix + e.Link
		}
		if len(e.Xattrs) > 0 {
			h.PAXRecords = map[string]string{}
			for k, v := range e.Xattrs {
				h.PAXRecords["SCHILY.xattr."+k] = v
			}
		}
		if err := tw.WriteHeader(h); err != nil {
			panic(err)
		}
		if e.Type == tar.TypeReg {
			tw.Write(e.Data)
		}
	}
	tw.Close()
	return buf.Bytes()
}

// MNode is a node of the reference tree.
type MNode struct {
	Name     string
	Path     string
	Type     byte
	Mode     int64
	UID, GID int
	Uname    string
	Gname    string
	MTime    int64
	Data     []byte
	Link     string
	Xattrs   map[string]string
	Major    int64
	Minor    int64
	Children map[string]*MNode
	Nlink    int
	Implicit bool
	target   *MNode // for hard links: the node whose attributes and bytes are presented
}

// Resolve returns the node whose attributes a lookup presents (hard links -> target).
func (m *MNode) Resolve() *MNode {
	for m.target != nil {
		m = m.target
	}
	return m
}

// Model builds the reference tree by reading the serialised tar back with archive/tar.
func Model(tarBytes []byte) (*MNode, error) {
	root := &MNode{Type: tar.TypeDir, Mode: 0755, Children: map[string]*MNode{}, Implicit: true}
	get := func(p string, create bool) *MNode {
		cur := root
		if p == "" || p == "." {
			return root
		}
		for _, c := range strings.Split(p, "/") {
			nx := cur.Children[c]
			if nx == nil {
				if !create {
					return nil
				}
				nx = &MNode{Name: c, Path: path.Join(cur.Path, c), Type: tar.TypeDir, Mode: 0755, Children: map[string]*MNode{}, Implicit: true}
				cur.Children[c] = nx
			}
			cur = nx
		}
		return cur
	}
	tr := tar.NewReader(bytes.NewReader(tarBytes))
	for {
		h, err := tr.Next()
		if err == io.EOF {
			break
		}
		if err != nil {
			return nil, err
		}
		name := path.Clean("/" + h.Name)[1:]
		if name == "" {
			continue
		}
		parent := get(path.Dir(name), true)
		n := &MNode{Name: path.Base(name), Path: name, Type: h.Typeflag, Mode: h.Mode, UID: h.Uid, GID: h.Gid, Uname: h.Uname, Gname: h.Gname, MTime: h.ModTime.Unix(),
			Link: h.Linkname, Major: h.Devmajor, Minor: h.Devminor}
		for k, v := range h.PAXRecords {
			if strings.HasPrefix(k, "SCHILY.xattr.") {
				if n.Xattrs == nil {
					n.Xattrs = map[string]string{}
				}
				n.Xattrs[strings.TrimPrefix(k, "SCHILY.xattr.")] = v
			}
		}
		switch h.Typeflag {
		case tar.TypeDir:
			n.Children = map[string]*MNode{}
			if old := parent.Children[n.Name]; old != nil && old.Type == tar.TypeDir {
				n.Children = old.Children // an implicit directory made explicit keeps its children
			}
		case tar.TypeReg:
			n.Data, _ = io.ReadAll(tr)
		case tar.TypeLink:
			n.target = get(path.Clean("/"+h.Linkname)[1:], false)
			if n.target == nil {
				return nil, fmt.Errorf("model: hard link %q to missing %q", name, h.Linkname)
			}
		}
		parent.Children[n.Name] = n
	}
	var count func(n *MNode)
	count = func(n *MNode) {
		if n.Type == tar.TypeDir {
			n.Nlink = 2
			for _, c := range n.Children {
				if c.Type == tar.TypeDir {
					n.Nlink++
				}
				count(c)
			}
		} else if n.target != nil {
			n.Resolve().Nlink++
		} else {
			n.Nlink++
		}
	}
	count(root)
	return root, nil
}

// Walk visits every node of the model (pre-order, sorted).
func (m *MNode) Walk(f func(n *MNode)) {
	f(m)
	var ks []string
	for k := range m.Children {
		ks = append(ks, k)
	}
	sort.Strings(ks)
	for _, k := range ks {
		m.Children[k].Walk(f)
	}
}

// Paths returns all paths of the model in sorted order (root excluded).
func (m *MNode) Paths() []string {
	var ps []string
	m.Walk(func(n *MNode) {
		if n.Path != "" {
			ps = append(ps, n.Path)
		}
	})
	return ps
}

// ExplicitParents reports whether every ancestor directory of p has its own tar entry
// (the builder can only move prioritized files whose parents exist as entries).
func (m *MNode) ExplicitParents(p string) bool {
	for d := path.Dir(p); d != "." && d != "/" && d != ""; d = path.Dir(d) {
		if n := m.Get(d); n == nil || n.Implicit {
			return false
		}
	}
	return true
}

func (m *MNode) Get(p string) *MNode {
	cur := m
	if p == "" {
		return m
	}
	for _, c := range strings.Split(p, "/") {
		cur = cur.Children[c]
		if cur == nil {
			return nil
		}
	}
	return cur
}

// ---------------------------------------------------------------------------------
// building eStargz blobs with the repository's builder (outside the simulation)

type BuildCfg struct {
	ChunkSize    int
	MinChunkSize int
	Compression  int // 0 gzip, 1 zstd:chunked
	Prioritized  []string
	Workers      int
	Level        int
}

type zstdComp struct {
	*zstdchunked.Compressor
	*zstdchunked.Decompressor
}

type Built struct {
	Blob      []byte
	TOCDigest digest.Digest
	DiffID    digest.Digest
	Digest    digest.Digest
	Cfg       BuildCfg
}

// PinProcs makes builds done outside the simulation independent of the machine: worker pools and
// the zstd encoder size themselves by GOMAXPROCS, which changes the produced bytes.
func PinProcs() func() {
	old := runtime.GOMAXPROCS(1)
	return func() { runtime.GOMAXPROCS(old) }
}

func BuildBlob(tarBytes []byte, c BuildCfg) (*Built, error) {
	defer PinProcs()()
	opts := []estargz.Option{estargz.WithChunkSize(c.ChunkSize)}
	if c.MinChunkSize > 0 {
		opts = append(opts, estargz.WithMinChunkSize(c.MinChunkSize))
	}
	if c.Workers > 0 {
		opts = append(opts, estargz.WithParallelism(c.Workers))
	}
	if len(c.Prioritized) > 0 {
		opts = append(opts, estargz.WithPrioritizedFiles(c.Prioritized))
	}
	switch c.Compression {
	case 1:
		opts = append(opts, estargz.WithCompression(&zstdComp{&zstdchunked.Compressor{CompressionLevel: zstd.SpeedDefault}, &zstdchunked.Decompressor{}}))
	default:
		lvl := 1
		if c.Level == -100 {
			lvl = 0 // gzip.NoCompression: payload stored literally
		}
		opts = append(opts, estargz.WithCompressionLevel(lvl))
	}
	b, err := estargz.Build(io.NewSectionReader(bytes.NewReader(tarBytes), 0, int64(len(tarBytes))), opts...)
	if err != nil {
		return nil, err
	}
	defer b.Close()
	data, err := io.ReadAll(b)
	if err != nil {
		return nil, err
	}
	return &Built{Blob: data, TOCDigest: b.TOCDigest(), DiffID: b.DiffID(), Digest: digest.FromBytes(data), Cfg: c}, nil
}

// ---------------------------------------------------------------------------------
// driving a served node tree through go-fuse's node interfaces (no kernel)

type Tree struct {
	Root fusefs.InodeEmbedder
}

func NewTree(root fusefs.InodeEmbedder) *Tree {
	fusefs.NewNodeFS(root, &fusefs.Options{}) // initialises the root inode; no server is started
	return &Tree{Root: root}
}

// Lookup walks p from the root with Lookup calls.
func (t *Tree) Lookup(p string) (fusefs.InodeEmbedder, *fuse.EntryOut, syscall.Errno) {
	cur := t.Root
	var eo fuse.EntryOut
	if p == "" {
		return cur, &eo, 0
	}
	for _, c := range strings.Split(p, "/") {
		lk, ok := cur.(fusefs.NodeLookuper)
		if !ok {
			return nil, nil, syscall.ENOTDIR
		}
		eo = fuse.EntryOut{}
		in, errno := lk.Lookup(context.Background(), c, &eo)
		if errno != 0 {
			return nil, nil, errno
		}
		cur = in.Operations()
	}
	return cur, &eo, 0
}

func (t *Tree) Readdir(n fusefs.InodeEmbedder) ([]fuse.DirEntry, syscall.Errno) {
	rd, ok := n.(fusefs.NodeReaddirer)
	if !ok {
		return nil, syscall.ENOTDIR
	}
	ds, errno := rd.Readdir(context.Background())
	if errno != 0 {
		return nil, errno
	}
	var out []fuse.DirEntry
	for ds.HasNext() {
		e, errno := ds.Next()
		if errno != 0 {
			return nil, errno
		}
		out = append(out, e)
	}
	return out, 0
}

func (t *Tree) Getattr(n fusefs.InodeEmbedder) (*fuse.AttrOut, syscall.Errno) {
	var ao fuse.AttrOut
	ga, ok := n.(fusefs.NodeGetattrer)
	if !ok {
		return nil, syscall.ENOSYS
	}
	errno := ga.Getattr(context.Background(), nil, &ao)
	return &ao, errno
}

// Open opens a regular file node.
func (t *Tree) Open(n fusefs.InodeEmbedder) (fusefs.FileHandle, syscall.Errno) {
	op, ok := n.(fusefs.NodeOpener)
	if !ok {
		return nil, syscall.ENOSYS
	}
	fh, _, errno := op.Open(context.Background(), 0)
	return fh, errno
}

// Read reads through the file handle; if the handle offers a passthrough fd the
// kernel's behaviour (pread on the backing file) is emulated.
func (t *Tree) Read(fh fusefs.FileHandle, off int64, n int) ([]byte, syscall.Errno, bool) {
	if pf, ok := fh.(fusefs.FilePassthroughFder); ok {
		if fd, ok := pf.PassthroughFd(); ok {
			buf := make([]byte, n)
			m, err := syscall.Pread(fd, buf, off)
			if err != nil {
				return nil, syscall.EIO, true
			}
			return buf[:m], 0, true
		}
	}
	fr, ok := fh.(fusefs.FileReader)
	if !ok {
		return nil, syscall.ENOSYS, false
	}
	rr, errno := fr.Read(context.Background(), make([]byte, n), off)
	if errno != 0 {
		return nil, errno, false
	}
	b, st := rr.Bytes(make([]byte, n))
	if st != fuse.OK {
		return nil, syscall.EIO, false
	}
	return b, 0, false
}

func (t *Tree) Release(fh fusefs.FileHandle) {
	if r, ok := fh.(fusefs.FileReleaser); ok {
		r.Release(context.Background())
	}
}

func (t *Tree) Readlink(n fusefs.InodeEmbedder) (string, syscall.Errno) {
	rl, ok := n.(fusefs.NodeReadlinker)
	if !ok {
		return "", syscall.EINVAL
	}
	b, errno := rl.Readlink(context.Background())
	return string(b), errno
}

func (t *Tree) Getxattr(n fusefs.InodeEmbedder, name string) (string, syscall.Errno) {
	gx, ok := n.(fusefs.NodeGetxattrer)
	if !ok {
		return "", syscall.ENOSYS
	}
	buf := make([]byte, 4096)
	sz, errno := gx.Getxattr(context.Background(), name, buf)
	if errno != 0 {
		return "", errno
	}
	return string(buf[:sz]), 0
}

func (t *Tree) Listxattr(n fusefs.InodeEmbedder) ([]string, syscall.Errno) {
	lx, ok := n.(fusefs.NodeListxattrer)
	if !ok {
		return nil, syscall.ENOSYS
	}
	buf := make([]byte, 8192)
	sz, errno := lx.Listxattr(context.Background(), buf)
	if errno != 0 {
		return nil, errno
	}
	var out []string
	for _, s := range strings.Split(string(buf[:sz]), "\x00") {
		if s != "" {
			out = append(out, s)
		}
	}
	sort.Strings(out)
	return out, 0
}

// StateJSON reads the layer's state file (.stargz-snapshotter/<digest>.json).
func (t *Tree) StateJSON() (string, syscall.Errno) {
	sd, _, errno := t.Lookup(".stargz-snapshotter")
	if errno != 0 {
		return "", errno
	}
	ents, errno := t.Readdir(sd)
	if errno != 0 || len(ents) != 1 {
		return "", syscall.EIO
	}
	lk := sd.(fusefs.NodeLookuper)
	var eo fuse.EntryOut
	in, errno := lk.Lookup(context.Background(), ents[0].Name, &eo)
	if errno != 0 {
		return "", errno
	}
	rd, ok := in.Operations().(fusefs.NodeReader)
	if !ok {
		return "", syscall.ENOSYS
	}
	rr, errno := rd.Read(context.Background(), nil, make([]byte, 1<<16), 0)
	if errno != 0 {
		return "", errno
	}
	b, _ := rr.Bytes(make([]byte, 1<<16))
	return string(b), 0
}

// TarModeToSys converts tar permission bits (incl. setuid/setgid/sticky) and a typeflag
// to st_mode, independently of the repository's conversion.
func TarModeToSys(typ byte, mode int64) uint32 {
	m := uint32(mode & 0777)
	if mode&04000 != 0 {
		m |= syscall.S_ISUID
	}
	if mode&02000 != 0 {
		m |= syscall.S_ISGID
	}
	if mode&01000 != 0 {
		m |= syscall.S_ISVTX
	}
	switch typ {
	case tar.TypeDir:
		m |= syscall.S_IFDIR
	case tar.TypeSymlink:
		m |= syscall.S_IFLNK
	case tar.TypeChar:
		m |= syscall.S_IFCHR
	case tar.TypeBlock:
		m |= syscall.S_IFBLK
	case tar.TypeFifo:
		m |= syscall.S_IFIFO
	default:
		m |= syscall.S_IFREG
	}
	return m
}

var _ = os.ModePerm
