package common

import (
	"context"
	"fmt"
	"os"
	"path/filepath"
	"sort"
	"strings"

	"github.com/containerd/containerd/v2/core/mount"
	"github.com/containerd/containerd/v2/core/snapshots"
	"github.com/containerd/errdefs"
	"verifsim/simrt"
)

const (
	TargetLabel = "containerd.io/snapshot.ref"
	RemoteLabel = "containerd.io/snapshot/remote"
	CallLabel   = "containerd.io/snapshot/verif.call"
)

// SnapRec is what the harness learned about one snapshot name.
type SnapRec struct {
	Name    string
	Dir     string // <root>/snapshots/<id>, "" if never revealed
	Remote  bool
	Removed bool
}

// SnapDriver issues snapshotter calls for the simulated containerd clients and applies the
// per-call oracles of C08. It is shared with C09, which crashes such histories.
type SnapDriver struct {
	S      *simrt.Sim
	Sn     snapshots.Snapshotter
	FS     *RecFS
	Root   string
	Faulty bool // disk faults are being injected: calls may fail for that reason
	Dirs   map[string]string // snapshot name -> dir (learned)
	Acked  []string          // names acknowledged as existing (create/commit returned success)
	RemovedAt map[string]uint64 // dir -> seq of the Remove invocation that removed its snapshot
	Closing   bool
	Calls     int
	Counters  map[string]int
	// TargetLabels, if set, supplies the further labels a Prepare with target carries (source of the
	// layer for a real backend); the second result says whether a remote mount of them is legitimate.
	TargetLabels func(t *simrt.Task, target string) (labels map[string]string, mayMount bool, why string)
}

func NewSnapDriver(s *simrt.Sim, sn snapshots.Snapshotter, fs *RecFS, root string) *SnapDriver {
	return &SnapDriver{S: s, Sn: sn, FS: fs, Root: root, Dirs: map[string]string{}, RemovedAt: map[string]uint64{}, Counters: map[string]int{}}
}

func dirOfMounts(ms []mount.Mount) (upper string, lowers []string) {
	for _, m := range ms {
		if m.Type == "bind" {
			return "", []string{filepath.Dir(m.Source)}
		}
		for _, o := range m.Options {
			switch {
			case strings.HasPrefix(o, "upperdir="):
				upper = filepath.Dir(strings.TrimPrefix(o, "upperdir="))
			case strings.HasPrefix(o, "lowerdir="):
				for _, p := range strings.Split(strings.TrimPrefix(o, "lowerdir="), ":") {
					lowers = append(lowers, filepath.Dir(p))
				}
			}
		}
	}
	return
}

// eventsSince returns the backend events recorded from index i on that belong to task t or to
// goroutines it spawned (errgroup workers of checkAvailability).
func (d *SnapDriver) eventsSince(i int, t *simrt.Task) []MountEvent {
	var o []MountEvent
	for _, e := range d.FS.Events[i:] {
		if e.Task == t.Label || strings.HasPrefix(e.Task, t.Label+"/") {
			o = append(o, e)
		}
	}
	return o
}

// chain returns the names from key up to the root via Stat (parents are immutable).
func (d *SnapDriver) chain(ctx context.Context, key string) ([]snapshots.Info, error) {
	var o []snapshots.Info
	for k := key; k != ""; {
		info, err := d.Sn.Stat(ctx, k)
		if err != nil {
			return o, err
		}
		o = append(o, info)
		k = info.Parent
	}
	return o, nil
}

// checkMountsResult applies the clauses about Mounts/View/Prepare results (availability, lowerdir order).
func (d *SnapDriver) checkMountsResult(ctx context.Context, t *simrt.Task, what, key string, isActiveWithParent bool, ms []mount.Mount, err error, evs []MountEvent) bool {
	failedCheck := false
	checked := map[string]bool{}
	for _, e := range evs {
		if e.Op == "check" {
			if !e.OK {
				failedCheck = true
			} else {
				checked[e.MP] = true
			}
		}
	}
	if err != nil && !d.Faulty && !failedCheck && errClass(err) == "error" && what != "Mounts" {
		// without disk faults a Prepare / View ends in one of the documented outcomes: it succeeds, the key
		// or target exists, the parent is missing or unusable, or a remote layer is unavailable
		d.S.Fail("create-failed", "%s(%s) failed although no fault was injected and no connectivity check failed: %v", what, key, scrub(err.Error()))
		return false
	}
	if err != nil {
		if failedCheck && !errdefs.IsUnavailable(err) && !d.Faulty {
			d.S.Fail("check-failure-not-unavailable", "%s(%s): a connectivity check of a remote layer in the chain failed but the call failed with %q instead of Unavailable", what, key, err)
			return false
		}
		return true
	}
	if failedCheck {
		d.S.Fail("mounts-despite-failed-check", "%s(%s) returned mounts although the connectivity check of a remote layer in its chain failed during the call", what, key)
		return false
	}
	// every remote snapshot in the chain must have been checked in this call
	ch, cerr := d.chain(ctx, key)
	if cerr == nil {
		for _, info := range ch {
			if _, remote := info.Labels[RemoteLabel]; remote {
				dir := d.Dirs[info.Name]
				if dir != "" && !checked[filepath.Join(dir, "fs")] {
					d.S.Fail("remote-layer-not-checked", "%s(%s) returned mounts without checking the remote layer %q of its chain", what, key, info.Name)
					return false
				}
			}
		}
		// lower directories nearest parent first
		_, lowers := dirOfMounts(ms)
		if len(ms) == 1 && ms[0].Type == "overlay" && len(ch) > 1 {
			var want []string
			known := true
			for _, info := range ch[1:] {
				if d.Dirs[info.Name] == "" {
					known = false
				}
				want = append(want, d.Dirs[info.Name])
			}
			if known && fmt.Sprint(lowers) != fmt.Sprint(want) {
				d.S.Fail("lowerdir-order", "%s(%s): lowerdir lists %v, the parent chain nearest first is %v", what, key, relAll(lowers), relAll(want))
				return false
			}
		}
	}
	return true
}

func relAll(ps []string) []string {
	var o []string
	for _, p := range ps {
		o = append(o, RelSnap(p))
	}
	return o
}

// PrepareTarget is Prepare with a target label (the remote-snapshot path).
func (d *SnapDriver) PrepareTarget(ctx context.Context, t *simrt.Task, key, parent, target string) {
	d.Calls++
	call := fmt.Sprintf("c%d", d.Calls)
	i0 := len(d.FS.Events)
	d.S.Event("%s PrepareTarget key=%s parent=%s target=%s", t.Label, key, parent, target)
	lbls := map[string]string{TargetLabel: target, CallLabel: call}
	mayMount, why := true, ""
	if d.TargetLabels != nil {
		var extra map[string]string
		extra, mayMount, why = d.TargetLabels(t, target)
		for k, v := range extra {
			lbls[k] = v
		}
	}
	ms, err := d.Sn.Prepare(ctx, key, parent, snapshots.WithLabels(lbls))
	evs := d.eventsSince(i0, t)
	d.S.Event("%s PrepareTarget key=%s -> mounts=%d err=%v", t.Label, key, len(ms), errClass(err))
	var myMount *MountEvent
	for i := range evs {
		if evs[i].Op == "mount" && evs[i].OK {
			myMount = &evs[i]
		}
	}
	if myMount != nil && !mayMount {
		d.S.Fail("mounted-unverifiable-layer", "Prepare(%s) for target %q: the backend mounted the layer although %s", key, target, why)
		return
	}
	switch {
	case err != nil && errdefs.IsAlreadyExists(err):
		d.Counters["prepare_target_exists"]++
		info, serr := d.Sn.Stat(ctx, target)
		if myMount != nil {
			// this call mounted the layer; the target must now exist as a committed snapshot
			if serr != nil || info.Kind != snapshots.KindCommitted {
				if !d.Faulty {
					d.S.Fail("target-not-committed", "Prepare(%s) mounted the remote layer and reported that target %q exists, but Stat(target) = kind %v err %v", key, target, info.Kind, serr)
				}
				return
			}
			if info.Labels[CallLabel] == call {
				// this very call created the target
				d.Counters["remote_created"]++
				d.Dirs[target] = filepath.Dir(myMount.MP)
				d.Acked = append(d.Acked, target)
				if _, ok := info.Labels[RemoteLabel]; !ok {
					d.S.Fail("remote-not-labelled", "target %q was created from a successful backend mount by Prepare(%s) but is not marked remote", target, key)
					return
				}
				if _, live := d.FS.Live[myMount.MP]; !live {
					d.S.Fail("remote-without-mount", "target %q was created by Prepare(%s) but no backend mount is live on %s", target, key, RelSnap(myMount.MP))
					return
				}
			} else if _, kerr := d.Sn.Stat(ctx, key); kerr == nil {
				// another call had created the target: this key stays behind as an active snapshot
				// with the backend mount it made (until its owner removes the key)
				d.Dirs[key] = filepath.Dir(myMount.MP)
				d.Counters["lost_commit_race"]++
			}
		} else if serr != nil && !d.Faulty {
			// "already exists" may also refer to the key itself
			if _, kerr := d.Sn.Stat(ctx, key); kerr != nil {
				d.S.Fail("exists-but-missing", "Prepare(%s) reported AlreadyExists but neither the key nor target %q exists", key, target)
				return
			}
		}
	case err == nil:
		// fallback to an ordinary writable snapshot
		d.Counters["prepare_target_fallback"]++
		info, serr := d.Sn.Stat(ctx, key)
		if serr != nil || info.Kind != snapshots.KindActive {
			d.S.Fail("fallback-not-active", "Prepare(%s) with a target returned mounts but Stat(key) = kind %v err %v", key, info.Kind, serr)
			return
		}
		if _, remote := info.Labels[RemoteLabel]; remote {
			d.S.Fail("fallback-marked-remote", "Prepare(%s) fell back to an ordinary snapshot but it is marked remote", key)
			return
		}
		if myMount != nil {
			d.S.Fail("fallback-with-live-mount", "Prepare(%s) fell back to an ordinary snapshot although the backend mount on %s succeeded", key, RelSnap(myMount.MP))
			return
		}
		up, _ := dirOfMounts(ms)
		if up == "" && len(ms) == 1 && ms[0].Type == "bind" {
			up = filepath.Dir(ms[0].Source)
		}
		if up != "" {
			d.Dirs[key] = up
			if _, live := d.FS.Live[filepath.Join(up, "fs")]; live {
				d.S.Fail("fallback-with-live-mount", "Prepare(%s) fell back to an ordinary snapshot but a backend mount is live on its directory", key)
				return
			}
		}
		d.Acked = append(d.Acked, key)
		d.checkMountsResult(ctx, t, "Prepare", key, true, ms, nil, evs)
	default:
		d.Counters["prepare_target_error"]++
		d.checkMountsResult(ctx, t, "Prepare", key, true, nil, err, evs)
	}
}

// scrub removes unseeded path components (run directory, temp names) from an error text.
func scrub(m string) string {
	for _, f := range strings.Fields(m) {
		if strings.Contains(f, "/snapshots/") {
			m = strings.ReplaceAll(m, f, RelSnap(strings.TrimRight(f, ":")))
		}
	}
	return m
}

func errClass(err error) string {
	switch {
	case err == nil:
		return "nil"
	case errdefs.IsAlreadyExists(err):
		return "already-exists"
	case errdefs.IsNotFound(err):
		return "not-found"
	case errdefs.IsUnavailable(err):
		return "unavailable"
	case errdefs.IsFailedPrecondition(err):
		return "failed-precondition"
	case errdefs.IsInvalidArgument(err):
		return "invalid-argument"
	}
	return "error"
}

// Create is a plain Prepare or View.
func (d *SnapDriver) Create(ctx context.Context, t *simrt.Task, view bool, key, parent string) {
	i0 := len(d.FS.Events)
	what := "Prepare"
	if view {
		what = "View"
	}
	var ms []mount.Mount
	var err error
	if view {
		ms, err = d.Sn.View(ctx, key, parent)
	} else {
		ms, err = d.Sn.Prepare(ctx, key, parent)
	}
	evs := d.eventsSince(i0, t)
	d.S.Event("%s %s key=%s parent=%s -> mounts=%d err=%v", t.Label, what, key, parent, len(ms), errClass(err))
	if err == nil {
		up, lowers := dirOfMounts(ms)
		if up != "" {
			d.Dirs[key] = up
		} else if parent == "" && len(lowers) == 1 {
			d.Dirs[key] = lowers[0]
		}
		d.Acked = append(d.Acked, key)
	}
	d.checkMountsResult(ctx, t, what, key, !view, ms, err, evs)
}

func (d *SnapDriver) Mounts(ctx context.Context, t *simrt.Task, key string) {
	i0 := len(d.FS.Events)
	ms, err := d.Sn.Mounts(ctx, key)
	evs := d.eventsSince(i0, t)
	d.S.Event("%s Mounts key=%s -> mounts=%d err=%v", t.Label, key, len(ms), errClass(err))
	d.checkMountsResult(ctx, t, "Mounts", key, false, ms, err, evs)
}

func (d *SnapDriver) Commit(ctx context.Context, t *simrt.Task, name, key string) {
	err := d.Sn.Commit(ctx, name, key)
	d.S.Event("%s Commit name=%s key=%s -> %v", t.Label, name, key, errClass(err))
	if err == nil {
		if dir := d.Dirs[key]; dir != "" {
			d.Dirs[name] = dir
			delete(d.Dirs, key)
		}
		d.Acked = append(d.Acked, name)
	}
}

func (d *SnapDriver) Remove(ctx context.Context, t *simrt.Task, key string) {
	seq := d.S.Event("%s Remove key=%s", t.Label, key)
	dir := d.Dirs[key]
	prov := false
	if dir != "" {
		if _, ok := d.RemovedAt[dir]; !ok {
			// provisional: the backend unmount happens inside the call, before it returns
			d.RemovedAt[dir] = seq
			prov = true
		}
	}
	err := d.Sn.Remove(ctx, key)
	d.S.Event("%s Remove key=%s -> %v", t.Label, key, errClass(err))
	if err == nil {
		if d.Dirs[key] == dir {
			delete(d.Dirs, key) // (the name may have been re-created by another client meanwhile)
		}
		return
	}
	if prov {
		if _, serr := d.Sn.Stat(ctx, key); serr == nil {
			delete(d.RemovedAt, dir) // still there: nothing was removed
		}
	}
}

// LiveSnapshots lists all snapshot names via Walk.
func (d *SnapDriver) LiveSnapshots(ctx context.Context) (map[string]snapshots.Info, error) {
	out := map[string]snapshots.Info{}
	err := d.Sn.Walk(ctx, func(ctx context.Context, info snapshots.Info) error {
		out[info.Name] = info
		return nil
	})
	return out, err
}

// SnapshotDirs lists the entries of <root>/snapshots.
func (d *SnapDriver) SnapshotDirs() []string {
	ents, _ := os.ReadDir(filepath.Join(d.Root, "snapshots"))
	var o []string
	for _, e := range ents {
		o = append(o, e.Name())
	}
	sort.Strings(o)
	return o
}
