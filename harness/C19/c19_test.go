// C19 — image conversion emits descriptors that describe exactly the blobs it wrote.
// Real: nativeconverter/estargz, nativeconverter/zstdchunked, nativeconverter/estargz/externaltoc
// (lossy and lossless), estargz.Build / Writer with its worker pool and temp files, containerd's
// local content store (on a per-run directory) and uncompress converter.
// Stub: containerd's image walker (converter.DefaultIndexConvertFunc -> convertManifest runs the
// layer ConvertFunc of one converter instance for all layers of a manifest in parallel goroutines;
// here that is one simulated task per layer), content.OpenWriter's random back-off (fixed), the
// wall clock. The content store is wrapped: every call is a scheduling point and may fail.
// The unsynchronised shared memory of the converter packages is modelled (non-atomic map writes,
// read-modify-write of captured variables), see tools/instrument "racy".
package c19

import (
	"archive/tar"
	"bytes"
	"compress/gzip"
	"context"
	"crypto/sha256"
	"encoding/json"
	"errors"
	"fmt"
	"io"
	"os"
	"sort"
	"strconv"
	"strings"
	"sync"
	"testing"
	"time"

	"github.com/containerd/containerd/v2/core/content"
	"github.com/containerd/containerd/v2/core/images"
	"github.com/containerd/containerd/v2/core/images/converter"
	"github.com/containerd/containerd/v2/pkg/labels"
	"github.com/containerd/containerd/v2/plugins/content/local"
	"github.com/containerd/stargz-snapshotter/estargz"
	esgzexternaltoc "github.com/containerd/stargz-snapshotter/estargz/externaltoc"
	"github.com/containerd/stargz-snapshotter/estargz/zstdchunked"
	estargzconvert "github.com/containerd/stargz-snapshotter/nativeconverter/estargz"
	externaltocconvert "github.com/containerd/stargz-snapshotter/nativeconverter/estargz/externaltoc"
	zstdchunkedconvert "github.com/containerd/stargz-snapshotter/nativeconverter/zstdchunked"
	"github.com/containerd/stargz-snapshotter/zzverif/common"
	"github.com/klauspost/compress/zstd"
	digest "github.com/opencontainers/go-digest"
	ocispec "github.com/opencontainers/image-spec/specs-go/v1"
	"verifsim/hx"
	"verifsim/simrt"
)

func init() {
	// containerd's compression package pipes gzip streams through unpigz/igzip child processes when
	// they are installed: real processes and pipes cannot live in the simulation. Its documented
	// switches select the in-process decoder.
	os.Setenv("CONTAINERD_DISABLE_PIGZ", "1")
	os.Setenv("CONTAINERD_DISABLE_IGZIP", "1")
}

// ---- the content store seen by the converters ----------------------------------------------

type simStore struct {
	content.Store
	s        *simrt.Sim
	faultDen int // 0 = no faults
	quiet    bool
}

func (c *simStore) point(op string) error {
	t := simrt.Cur()
	if t == nil || c.quiet {
		return nil
	}
	t.Yield("store." + op)
	if c.faultDen > 0 && c.s.Tape.Draw("storefault:"+t.Label, c.faultDen) == 0 {
		c.s.Stat("fault.store."+op, 1)
		c.s.Event("%s: store fault at %s", t.Label, op)
		return fmt.Errorf("injected content store failure at %s", op)
	}
	return nil
}

func (c *simStore) Info(ctx context.Context, dgst digest.Digest) (content.Info, error) {
	if err := c.point("info"); err != nil {
		return content.Info{}, err
	}
	return c.Store.Info(ctx, dgst)
}

func (c *simStore) ReaderAt(ctx context.Context, desc ocispec.Descriptor) (content.ReaderAt, error) {
	if err := c.point("readerat"); err != nil {
		return nil, err
	}
	ra, err := c.Store.ReaderAt(ctx, desc)
	if err != nil {
		return nil, err
	}
	return &simReaderAt{ReaderAt: ra, c: c}, nil
}

type simReaderAt struct {
	content.ReaderAt
	c *simStore
	n int
}

func (r *simReaderAt) ReadAt(p []byte, off int64) (int, error) {
	r.n++
	if r.n%8 == 1 { // not every read is a scheduling point: the builder reads in small pieces
		if err := r.c.point("read"); err != nil {
			return 0, err
		}
	}
	return r.ReaderAt.ReadAt(p, off)
}

func (c *simStore) Writer(ctx context.Context, opts ...content.WriterOpt) (content.Writer, error) {
	if err := c.point("writer"); err != nil {
		return nil, err
	}
	w, err := c.Store.Writer(ctx, opts...)
	if err != nil {
		return nil, err
	}
	return &simWriter{Writer: w, c: c}, nil
}

type simWriter struct {
	content.Writer
	c *simStore
	n int
}

func (w *simWriter) Write(p []byte) (int, error) {
	w.n++
	if w.n%4 == 1 {
		if err := w.c.point("write"); err != nil {
			// a torn write: part of the buffer reaches the ingest file
			k := len(p) / 2
			if k > 0 {
				w.Writer.Write(p[:k])
			}
			return k, err
		}
	}
	return w.Writer.Write(p)
}

func (w *simWriter) Commit(ctx context.Context, size int64, expected digest.Digest, opts ...content.Opt) error {
	if err := w.c.point("commit"); err != nil {
		return err
	}
	return w.Writer.Commit(ctx, size, expected, opts...)
}

func (w *simWriter) Truncate(size int64) error {
	if err := w.c.point("truncate"); err != nil {
		return err
	}
	return w.Writer.Truncate(size)
}

// memLabels is the label store of the local content store (containerd keeps labels in its metadata
// database; the plain local store drops them).
type memLabels struct {
	mu sync.Mutex
	m  map[digest.Digest]map[string]string
}

func (l *memLabels) Get(d digest.Digest) (map[string]string, error) {
	l.mu.Lock()
	defer l.mu.Unlock()
	o := map[string]string{}
	for k, v := range l.m[d] {
		o[k] = v
	}
	return o, nil
}

func (l *memLabels) Set(d digest.Digest, lb map[string]string) error {
	l.mu.Lock()
	defer l.mu.Unlock()
	o := map[string]string{}
	for k, v := range lb {
		o[k] = v
	}
	l.m[d] = o
	return nil
}

func (l *memLabels) Update(d digest.Digest, up map[string]string) (map[string]string, error) {
	l.mu.Lock()
	defer l.mu.Unlock()
	cur := l.m[d]
	if cur == nil {
		cur = map[string]string{}
		l.m[d] = cur
	}
	for k, v := range up {
		if v == "" {
			delete(cur, k)
		} else {
			cur[k] = v
		}
	}
	o := map[string]string{}
	for k, v := range cur {
		o[k] = v
	}
	return o, nil
}

// ---- sources ---------------------------------------------------------------------------------

type layerSrc struct {
	kind  string // uncompressed gzip zstd estargz
	tarB  []byte // what decompressing the source yields
	blob  []byte
	desc  ocispec.Descriptor
	model *common.MNode
	prio  []string
}

func special(p string) bool {
	return p == estargz.TOCTarName || p == estargz.PrefetchLandmark || p == estargz.NoPrefetchLandmark
}

func gz(b []byte) []byte {
	var buf bytes.Buffer
	w, _ := gzip.NewWriterLevel(&buf, gzip.BestSpeed)
	w.Write(b)
	w.Close()
	return buf.Bytes()
}

func zs(b []byte) []byte {
	defer common.PinProcs()()
	var buf bytes.Buffer
	w, _ := zstd.NewWriter(&buf, zstd.WithEncoderConcurrency(1))
	w.Write(b)
	w.Close()
	return buf.Bytes()
}

func gunzipAll(b []byte) ([]byte, error) {
	r, err := gzip.NewReader(bytes.NewReader(b))
	if err != nil {
		return nil, err
	}
	return io.ReadAll(r) // multistream: all members
}

func unzstdAll(b []byte) ([]byte, error) {
	r, err := zstd.NewReader(bytes.NewReader(b), zstd.WithDecoderConcurrency(1))
	if err != nil {
		return nil, err
	}
	defer r.Close()
	return io.ReadAll(r) // all frames; skippable frames are skipped
}

func compressionOf(b []byte) string {
	switch {
	case len(b) >= 2 && b[0] == 0x1f && b[1] == 0x8b:
		return "gzip"
	case len(b) >= 4 && b[0] == 0x28 && b[1] == 0xb5 && b[2] == 0x2f && b[3] == 0xfd:
		return "zstd"
	case len(b) >= 4 && b[0]&0xf0 == 0x50 && b[1] == 0x2a && b[2] == 0x4d && b[3] == 0x18:
		return "zstd" // starts with a skippable frame
	}
	return "none"
}

func mediaCompression(mt string) string {
	switch {
	case strings.HasSuffix(mt, "gzip"):
		return "gzip"
	case strings.HasSuffix(mt, "zstd"):
		return "zstd"
	}
	return "none"
}

func run(t *testing.T, tape *simrt.Tape) *hx.Outcome {
	out := &hx.Outcome{Counters: map[string]int{}}
	d := func(n int) int { return tape.Draw("gen", n) }
	c := func(n int) int { return tape.Draw("cfg", n) }
	mode := []string{"estargz", "estargz-perlayer", "zstdchunked", "zstdchunked-perlayer", "externaltoc", "externaltoc-perlayer", "externaltoc-lossless"}[c(7)]
	nLayers := 1 + c(4)
	cs := []int{8, 17, 64, 50}[c(4)]
	minCS := []int{0, 0, 3 * cs}[c(3)]
	level := []int{1, 6, 9}[c(3)]
	calm := c(2) == 0
	faultDen := 0
	if !calm {
		faultDen = []int{12, 40}[c(2)]
	}
	cancelOne := !calm && c(3) == 0
	root, cleanup := hx.RunDir()
	defer cleanup()
	raw, err := local.NewLabeledStore(root, &memLabels{m: map[digest.Digest]map[string]string{}})
	if err != nil {
		out.InfraErr = "local store: " + err.Error()
		return out
	}
	bg := context.Background()
	var srcs []*layerSrc
	seen := map[digest.Digest]bool{}
	for i := 0; i < nLayers; i++ {
		spec := common.GenTar(d, tape.Seed+uint64(i)*15485863, common.GenOpts{ChunkSize: cs, MaxEntries: 7, OddNames: d(3) == 0, BigFiles: d(3) == 0})
		tb := spec.Bytes()
		model, err := common.Model(tb)
		if err != nil {
			out.InfraErr = "model: " + err.Error()
			return out
		}
		l := &layerSrc{tarB: tb, model: model}
		docker := d(2) == 0
		l.kind = []string{"uncompressed", "gzip", "gzip", "zstd", "estargz"}[d(5)]
		if (l.kind == "zstd" || l.kind == "estargz") && mode == "externaltoc-lossless" {
			// the lossless writer (estargz.Writer.AppendTarLossLess) only recognises gzip and plain tar
			// and refuses a tar that already carries a TOC: both are reported as errors, which is not a
			// wrong descriptor (DESIGN O5)
			l.kind = "gzip"
		}
		switch l.kind {
		case "uncompressed":
			l.blob = tb
			l.desc.MediaType = ocispec.MediaTypeImageLayer
			if docker {
				l.desc.MediaType = images.MediaTypeDockerSchema2Layer
			}
		case "gzip":
			l.blob = gz(tb)
			l.desc.MediaType = ocispec.MediaTypeImageLayerGzip
			if docker {
				l.desc.MediaType = images.MediaTypeDockerSchema2LayerGzip
			}
		case "zstd":
			l.blob = zs(tb)
			l.desc.MediaType = ocispec.MediaTypeImageLayerZstd
		case "estargz": // already converted input
			b, err := common.BuildBlob(tb, common.BuildCfg{ChunkSize: cs, Workers: 1})
			if err != nil {
				out.InfraErr = "build: " + err.Error()
				return out
			}
			l.blob = b.Blob
			l.tarB, err = gunzipAll(b.Blob)
			if err != nil {
				out.InfraErr = "gunzip: " + err.Error()
				return out
			}
			if l.model, err = common.Model(l.tarB); err != nil {
				out.InfraErr = "model(estargz): " + err.Error()
				return out
			}
			l.desc.MediaType = ocispec.MediaTypeImageLayerGzip
			// the manifest of a converted image carries the annotations of that conversion
			l.desc.Annotations = map[string]string{estargz.TOCJSONDigestAnnotation: b.TOCDigest.String(), estargz.StoreUncompressedSizeAnnotation: fmt.Sprint(len(l.tarB))}
		}
		if d(3) == 0 {
			if l.desc.Annotations == nil {
				l.desc.Annotations = map[string]string{}
			}
			l.desc.Annotations["org.example.note"] = "kept"
		}
		l.desc.Digest = digest.FromBytes(l.blob)
		l.desc.Size = int64(len(l.blob))
		if seen[l.desc.Digest] {
			continue // identical layers of one image are one blob
		}
		seen[l.desc.Digest] = true
		l.model.Walk(func(n *common.MNode) {
			if n.Type == tar.TypeReg && !special(n.Path) && d(3) == 0 && l.model.ExplicitParents(n.Path) {
				l.prio = append(l.prio, n.Path)
			}
		})
		lbl := map[string]string{}
		if l.kind != "uncompressed" {
			lbl[labels.LabelUncompressed] = digest.FromBytes(l.tarB).String()
		}
		if err := content.WriteBlob(bg, raw, "src-"+l.desc.Digest.String(), bytes.NewReader(l.blob), l.desc, content.WithLabels(lbl)); err != nil {
			out.InfraErr = "write source: " + err.Error()
			return out
		}
		srcs = append(srcs, l)
	}
	commonOpts := []estargz.Option{estargz.WithChunkSize(cs), estargz.WithCompressionLevel(level)}
	if minCS > 0 {
		commonOpts = append(commonOpts, estargz.WithMinChunkSize(minCS))
	}
	// spare capacity, as a caller that builds its option list with append has
	commonOpts = append(make([]estargz.Option, 0, len(commonOpts)+2+c(3)), commonOpts...)
	perLayer := map[digest.Digest][]estargz.Option{}
	for _, l := range srcs {
		if len(l.prio) > 0 {
			perLayer[l.desc.Digest] = append(make([]estargz.Option, 0, 4), estargz.WithPrioritizedFiles(l.prio))
		}
	}
	var cf converter.ConvertFunc
	var finalize func(ctx context.Context, cs content.Store, ref string, desc *ocispec.Descriptor) (*images.Image, error)
	switch mode {
	case "estargz":
		cf = estargzconvert.LayerConvertFunc(commonOpts...)
	case "estargz-perlayer":
		cf = estargzconvert.LayerConvertWithLayerAndCommonOptsFunc(perLayer, commonOpts...)
	case "zstdchunked":
		cf = zstdchunkedconvert.LayerConvertFunc(commonOpts...)
	case "zstdchunked-perlayer":
		cf = zstdchunkedconvert.LayerConvertWithLayerOptsFuncWithCompressionLevel(zstd.SpeedFastest, perLayer)
	case "externaltoc":
		cf, finalize = externaltocconvert.LayerConvertFunc(commonOpts, level)
	case "externaltoc-perlayer":
		cf, finalize = externaltocconvert.LayerConvertWithLayerAndCommonOptsFunc(perLayer, commonOpts, level)
	case "externaltoc-lossless":
		cf, finalize = externaltocconvert.LayerConvertLossLessFunc(externaltocconvert.LayerConvertLossLessConfig{CompressionLevel: level, ChunkSize: cs, MinChunkSize: minCS})
	}
	// the retry of an interrupted conversion may come from a converter with other options (another compression
	// level and chunk size: the image is converted again with a changed command line); the left-over ingest of the
	// first attempt must not leak into the new blob (own tape stream: older tapes replay unchanged)
	cfRetry := cf
	if (mode == "estargz" || mode == "estargz-perlayer") && tape.Draw("cfg.retryopts", 2) == 0 {
		lvl2 := 9
		if level == 9 {
			lvl2 = 1
		}
		o2 := []estargz.Option{estargz.WithChunkSize(2*cs + 1), estargz.WithCompressionLevel(lvl2)}
		if mode == "estargz" {
			cfRetry = estargzconvert.LayerConvertFunc(o2...)
		} else {
			cfRetry = estargzconvert.LayerConvertWithLayerAndCommonOptsFunc(perLayer, o2...)
		}
	}
	lossless := mode == "externaltoc-lossless"
	external := strings.HasPrefix(mode, "externaltoc")
	zstdMode := strings.HasPrefix(mode, "zstdchunked")
	converted, failedOnce, retried := 0, 0, 0
	res := simrt.Run(t, tape, simrt.Options{MaxSteps: 600000, HangAfter: time.Hour}, func(s *simrt.Sim, mt *simrt.Task) {
		s.Procs = 1 + s.Tape.Draw("cfg", 4)
		s.UseDisk(simrt.DiskCfg{Yield: s.Tape.Draw("cfg", 2) == 0})
		ss := &simStore{Store: raw, s: s, faultDen: faultDen}
		results := make([]*ocispec.Descriptor, len(srcs))
		errs := make([]error, len(srcs))
		// ---- phase 1: all layers of the manifest in parallel, one converter instance ----
		var ts []*simrt.Task
		ctxs := make([]context.Context, len(srcs))
		cancels := make([]context.CancelFunc, len(srcs))
		for i := range srcs {
			ctxs[i], cancels[i] = context.WithCancel(bg)
		}
		for i, l := range srcs {
			i, l := i, l
			ts = append(ts, s.Go(fmt.Sprintf("layer%d", i), func(t *simrt.Task) {
				results[i], errs[i] = cf(ctxs[i], ss, l.desc)
				s.Event("%s (%s, %s) converted ok=%v", t.Label, l.kind, l.desc.MediaType, errs[i] == nil)
			}))
		}
		if cancelOne {
			victim := s.Tape.Draw("cfg", len(srcs))
			target := uint64(s.Tape.Draw("cfg", 1+[]int{8, 64, 512}[s.Tape.Draw("cfg", 3)]))
			vt := ts[victim]
			ts = append(ts, s.Go("interrupt", func(t *simrt.Task) {
				t.Block("interrupt.wait", func() bool { return vt.Sched >= target || vt.Done() })
				s.Stat("fault.cancel", 1)
				s.Event("interrupt: conversion of layer%d cancelled", victim)
				cancels[victim]()
			}))
		}
		mt.Join(ts...)
		if s.Failed() {
			return
		}
		for i := range srcs {
			if errs[i] != nil {
				failedOnce++
				if calm {
					s.Fail("conversion-failed", "converting layer %d (%s, %s) failed without any injected fault: %v", i, srcs[i].kind, srcs[i].desc.MediaType, errs[i])
					return
				}
			}
		}
		// ---- phase 2: faults stop; interrupted conversions are retried (same converter, same writer refs) ----
		ss.quiet = true
		ts = nil
		for i, l := range srcs {
			i, l := i, l
			if errs[i] == nil {
				continue
			}
			retried++
			ts = append(ts, s.Go(fmt.Sprintf("retry%d", i), func(t *simrt.Task) {
				results[i], errs[i] = cfRetry(bg, ss, l.desc)
				s.Event("%s converted ok=%v", t.Label, errs[i] == nil)
			}))
		}
		mt.Join(ts...)
		if s.Failed() {
			return
		}
		for i := range srcs {
			if errs[i] != nil {
				s.Fail("retry-failed", "with faults stopped, converting layer %d (%s) again with the same converter failed: %v", i, srcs[i].kind, errs[i])
				return
			}
		}
		// ---- the TOC image of external-TOC conversion ----
		tocOf := map[digest.Digest][]byte{} // converted layer digest -> external TOC blob
		if external {
			img, err := finalize(bg, ss, "reg.example/repo/img:tag", nil)
			if err != nil {
				s.Fail("finalize-failed", "finalize of external-TOC conversion failed: %v", err)
				return
			}
			if img.Name != "reg.example/repo/img:tag-esgztoc" {
				s.Fail("toc-image-name", "TOC image is named %q", img.Name)
				return
			}
			mb, err := content.ReadBlob(bg, raw, img.Target)
			if err != nil {
				s.Fail("toc-image-missing", "TOC image manifest %s is not in the content store: %v", img.Target.Digest, err)
				return
			}
			var m ocispec.Manifest
			if err := json.Unmarshal(mb, &m); err != nil {
				s.Fail("toc-image-manifest", "TOC image manifest does not parse: %v", err)
				return
			}
			for _, tl := range m.Layers {
				ld := digest.Digest(tl.Annotations["containerd.io/snapshot/stargz/layer.digest"])
				tb, err := content.ReadBlob(bg, raw, tl)
				if err != nil {
					s.Fail("toc-blob-missing", "TOC image lists TOC blob %s (size %d) for layer %s but the content store cannot serve it: %v", tl.Digest, tl.Size, ld, err)
					return
				}
				if _, dup := tocOf[ld]; dup {
					s.Fail("toc-image-duplicate", "TOC image maps layer %s twice", ld)
					return
				}
				tocOf[ld] = tb
			}
		}
		// ---- every returned descriptor against the committed blob ----
		for i, l := range srcs {
			if !check(s, raw, mode, minCS, i, l, results[i], tocOf, lossless, external, zstdMode) {
				return
			}
			converted++
		}
	})
	out.Res = res
	out.Counters["layers_converted"] += converted
	out.Counters["conversions_failed_under_faults"] += failedOnce
	out.Counters["conversions_retried"] += retried
	kinds := []string{}
	for _, l := range srcs {
		kinds = append(kinds, l.kind)
	}
	sort.Strings(kinds)
	out.Nontrivial = converted > 0 && (len(srcs) > 1 || retried > 0)
	out.Signature = fmt.Sprintf("%s/L%d/%s/cs%d/min%d/lv%d/calm%v/cancel%v", mode, len(srcs), strings.Join(kinds, "+"), cs, minCS, level, calm, cancelOne)
	out.Sample = map[string]any{"mode": mode, "layers": len(srcs), "kinds": kinds, "chunk": cs, "min_chunk": minCS, "level": level, "calm": calm, "retried": retried}
	return out
}

func check(s *simrt.Sim, raw content.Store, mode string, minCS int, i int, l *layerSrc, d2 *ocispec.Descriptor, tocOf map[digest.Digest][]byte, lossless, external, zstdMode bool) bool {
	bg := context.Background()
	who := fmt.Sprintf("layer %d (%s source, %s, mode %s)", i, l.kind, l.desc.MediaType, mode)
	if d2 == nil {
		s.Fail("not-converted", "%s: the converter returned no descriptor for a layer", who)
		return false
	}
	blob, err := content.ReadBlob(bg, raw, ocispec.Descriptor{Digest: d2.Digest, Size: d2.Size})
	if err != nil {
		s.Fail("blob-not-committed", "%s: the returned descriptor (digest %s, size %d) does not name a committed blob of that size: %v", who, d2.Digest, d2.Size, err)
		return false
	}
	if got := digest.FromBytes(blob); got != d2.Digest || int64(len(blob)) != d2.Size {
		s.Fail("descriptor-digest", "%s: descriptor says %s/%d, the committed blob is %s/%d", who, d2.Digest, d2.Size, got, len(blob))
		return false
	}
	comp := compressionOf(blob)
	var u []byte
	switch comp {
	case "gzip":
		u, err = gunzipAll(blob)
	case "zstd":
		u, err = unzstdAll(blob)
	default:
		err = errors.New("neither gzip nor zstd")
	}
	if err != nil {
		s.Fail("invalid-stream", "%s: the committed blob is not a valid compressed stream: %v", who, err)
		return false
	}
	want := "gzip"
	if zstdMode {
		want = "zstd"
	}
	if comp != want {
		s.Fail("wrong-compression", "%s: the committed blob is %s-compressed, the converter promises %s", who, comp, want)
		return false
	}
	if mc := mediaCompression(d2.MediaType); mc != comp {
		s.Fail("media-type-mismatch", "%s: the descriptor's media type %q does not match the blob's compression (%s)", who, d2.MediaType, comp)
		return false
	}
	if a := d2.Annotations[estargz.StoreUncompressedSizeAnnotation]; a != strconv.Itoa(len(u)) {
		s.Fail("uncompressed-size", "%s: annotation %s = %q, the decompressed blob has %d bytes", who, estargz.StoreUncompressedSizeAnnotation, a, len(u))
		return false
	}
	info, err := raw.Info(bg, d2.Digest)
	if err != nil {
		s.Fail("blob-not-committed", "%s: Info(%s): %v", who, d2.Digest, err)
		return false
	}
	diffID := digest.Digest(fmt.Sprintf("sha256:%x", sha256.Sum256(u)))
	if got := info.Labels[labels.LabelUncompressed]; got != diffID.String() {
		s.Fail("uncompressed-label", "%s: content store label %s = %q, the decompressed blob hashes to %s", who, labels.LabelUncompressed, got, diffID)
		return false
	}
	if lossless && !bytes.Equal(u, l.tarB) {
		s.Fail("lossless-changed-diffid", "%s: lossless conversion changed the uncompressed stream (DiffID %s -> %s)", who, digest.FromBytes(l.tarB), diffID)
		return false
	}
	// the TOC digest annotation is the digest under which the blob opens and verifies
	tocDgst := digest.Digest(d2.Annotations[estargz.TOCJSONDigestAnnotation])
	var opts []estargz.OpenOption
	switch {
	case zstdMode:
		opts = append(opts, estargz.WithDecompressors(new(zstdchunked.Decompressor)))
	case external:
		tb, ok := tocOf[d2.Digest]
		if !ok {
			var have []string
			for k := range tocOf {
				have = append(have, k.String()[7:15])
			}
			sort.Strings(have)
			s.Fail("toc-image-incomplete", "%s: the TOC image has no entry for the converted layer %s (it maps %d layer(s): %v)", who, d2.Digest.String()[7:15], len(tocOf), have)
			return false
		}
		opts = append(opts, estargz.WithDecompressors(esgzexternaltoc.NewGzipDecompressor(func() ([]byte, error) { return tb, nil })))
	}
	r, err := estargz.Open(io.NewSectionReader(bytes.NewReader(blob), 0, int64(len(blob))), opts...)
	if err != nil {
		s.Fail("blob-does-not-open", "%s: the committed blob does not open as eStargz: %v", who, err)
		return false
	}
	if r.TOCDigest() != tocDgst {
		s.Fail("toc-digest", "%s: the annotated TOC digest is %q, the TOC of the committed blob hashes to %s", who, tocDgst, r.TOCDigest())
		return false
	}
	if minCS == 0 {
		// (estargz.Reader's own verifier predates min-chunk-size: it rejects streams shared by several chunks)
		if _, err := r.VerifyTOC(tocDgst); err != nil {
			s.Fail("toc-digest", "%s: the blob does not verify under the annotated TOC digest %q: %v", who, tocDgst, err)
			return false
		}
	}
	// ... and it serves the source's files
	bad := ""
	l.model.Walk(func(n *common.MNode) {
		if bad != "" || n.Type != tar.TypeReg || n.Path == "" || special(n.Path) {
			return // (landmarks and the TOC of an already converted source are replaced, not carried over)
		}
		sr, err := r.OpenFile(n.Path)
		if err != nil {
			bad = fmt.Sprintf("OpenFile(%q): %v", n.Path, err)
			return
		}
		b, err := io.ReadAll(io.NewSectionReader(sr, 0, int64(len(n.Data))+1))
		if err != nil || !bytes.Equal(b, n.Data) {
			bad = fmt.Sprintf("%q reads %d bytes (err %v), the source has %d", n.Path, len(b), err, len(n.Data))
			return
		}
		// every chunk the TOC lists for the file carries the digest of exactly those bytes
		for off := int64(0); off < int64(len(n.Data)); {
			ce, ok := r.ChunkEntryForOffset(n.Path, off)
			if !ok || ce.ChunkSize <= 0 || ce.ChunkOffset != off || off+ce.ChunkSize > int64(len(n.Data)) {
				bad = fmt.Sprintf("%q: no well-formed TOC chunk at file offset %d (found %v)", n.Path, off, ok)
				return
			}
			if got := digest.FromBytes(n.Data[off : off+ce.ChunkSize]).String(); got != ce.ChunkDigest {
				bad = fmt.Sprintf("%q: TOC chunk [%d,%d) carries digest %s, the bytes hash to %s", n.Path, off, off+ce.ChunkSize, ce.ChunkDigest, got)
				return
			}
			off += ce.ChunkSize
		}
	})
	if bad != "" {
		s.Fail("content-differs", "%s: the converted blob does not serve the source layer: %s", who, bad)
		return false
	}
	if zstdMode {
		// zstd:chunked manifest annotations, when present, describe this blob too: the position names the
		// compressed manifest inside the blob, the checksum is that of the compressed manifest
		pos, hasPos := d2.Annotations[zstdchunked.ManifestPositionAnnotation]
		ck, hasCk := d2.Annotations[zstdchunked.ManifestChecksumAnnotation]
		if hasPos {
			var off, clen, ulen, typ int64
			if n, _ := fmt.Sscanf(pos, "%d:%d:%d:%d", &off, &clen, &ulen, &typ); n != 4 || off < 0 || clen <= 0 || off+clen > int64(len(blob)) {
				s.Fail("zstd-manifest-annotation", "%s: %s = %q does not lie inside the %d-byte blob", who, zstdchunked.ManifestPositionAnnotation, pos, len(blob))
				return false
			}
			mj, err := unzstdAll(blob[off : off+clen])
			if err != nil || int64(len(mj)) != ulen || digest.FromBytes(mj) != tocDgst {
				s.Fail("zstd-manifest-annotation", "%s: %s = %q: the frame there decodes to %d bytes (err %v) hashing to %s; the TOC digest is %s", who, zstdchunked.ManifestPositionAnnotation, pos, len(mj), err, digest.FromBytes(mj), tocDgst)
				return false
			}
			if hasCk && ck != digest.FromBytes(blob[off:off+clen]).String() {
				s.Fail("zstd-manifest-annotation", "%s: %s = %q but the compressed manifest at %q hashes to %s", who, zstdchunked.ManifestChecksumAnnotation, ck, pos, digest.FromBytes(blob[off:off+clen]))
				return false
			}
		}
	}
	return true
}

func TestC19(t *testing.T) {
	hx.Main(t, hx.Prop{
		ID:               "C19",
		Rule:             "each run draws a converter (eStargz, eStargz with per-layer options, zstd:chunked, zstd:chunked with per-layer options, external TOC, external TOC with per-layer options, external TOC lossless), 1-4 source layers (uncompressed / gzip / zstd / already eStargz; OCI and Docker media types; odd names, many-chunk files), chunk size, min-chunk-size, compression level, prioritized files, builder parallelism; all layers are converted in parallel by ONE converter instance through a fault-injecting content store (every call a scheduling point; in half of the runs Info/ReaderAt/ReadAt/Writer/Write(torn)/Truncate/Commit fail with 1/12 or 1/40, and one conversion may be cancelled at a drawn point); then faults stop and every failed conversion is retried with the same converter (same writer refs, left-over ingests). In half of the plain eStargz runs the retry comes from a converter with another compression level and chunk size (the left-over ingest must not leak into the new blob). Oracles per returned descriptor, against the blob read back from the store: digest and size; valid gzip/zstd stream of the promised compression; media type matches it; uncompressed-size annotation = decompressed length; content store uncompressed label = SHA-256 of the decompressed stream; lossless leaves the stream byte-identical; the blob opens and VerifyTOC succeeds under the annotated TOC digest (external TOC: with the TOC blob the finalised TOC image maps to this layer digest, which must exist for every converted layer) and serves every source file; zstd:chunked manifest annotations, when present, describe this blob. Unsynchronised map writes in the converter packages are violations (concurrent-map-write). Calm runs must not fail; after faults every retry must succeed. non-trivial = something converted and (several layers or a retry); distinct = schedule hash x configuration",
		Run:              run,
		PanicIsViolation: true,
		HangIsViolation:  true,
		Components: map[string]string{"nativeconverter/estargz, nativeconverter/zstdchunked, nativeconverter/estargz/externaltoc": "real (instrumented copy, shared memory modelled)", "estargz builder/writer, zstdchunked, externaltoc compressors": "real (instrumented copy)",
			"containerd local content store, uncompress converter": "real (uninstrumented dependency) behind a fault-injecting wrapper", "containerd image walker (parallel layer conversion)": "stub: one simulated task per layer", "content.OpenWriter back-off, clock": "simulated"},
		Assumptions: []string{"two layers of one image with the same digest are one conversion (containerd's walker converts them twice concurrently; the local store serialises them on the writer ref)", "a process crash in the middle of a conversion is approximated by cancellation and store failures that leave the ingest behind; the lock table of the store is not reset"},
	})
}
