// C04 — untrusted layer bytes and registry replies cause errors, never a crash or a hang.
// The registry is a Byzantine node: it serves mutated blobs (all footer variants the builder
// can produce), structurally adversarial TOCs generated from a grammar, hostile Content-Range /
// multipart metadata; mutated tars are handed to the builder. Runs execute in a supervised
// child process (fatal errors are unrecoverable) under ulimit -v and a per-run real-time limit.
package c04

import (
	"archive/tar"
	"bytes"
	"compress/gzip"
	"context"
	"encoding/json"
	"fmt"
	"io"
	"net/http"
	"os"
	"strconv"
	"path/filepath"
	"strings"
	"testing"
	"time"

	"github.com/containerd/containerd/v2/pkg/reference"
	dbmetadata "github.com/containerd/stargz-snapshotter/cmd/containerd-stargz-grpc/db"
	"github.com/containerd/stargz-snapshotter/estargz"
	"github.com/containerd/stargz-snapshotter/estargz/externaltoc"
	"github.com/containerd/stargz-snapshotter/fs/config"
	"github.com/containerd/stargz-snapshotter/fs/layer"
	"github.com/containerd/stargz-snapshotter/fs/source"
	"github.com/containerd/stargz-snapshotter/metadata"
	memorymetadata "github.com/containerd/stargz-snapshotter/metadata/memory"
	"github.com/containerd/stargz-snapshotter/task"
	"github.com/containerd/stargz-snapshotter/zzverif/common"
	fusefs "github.com/hanwen/go-fuse/v2/fs"
	digest "github.com/opencontainers/go-digest"
	ocispec "github.com/opencontainers/image-spec/specs-go/v1"
	bolt "go.etcd.io/bbolt"
	"verifsim/hx"
	"verifsim/simreg"
	"verifsim/simrt"
)

// ---- byte-level mutation ---------------------------------------------------------

func mutate(d func(int) int, b []byte) ([]byte, []string) {
	b = append([]byte(nil), b...)
	var notes []string
	n := 1 + d(3)
	for i := 0; i < n && len(b) > 0; i++ {
		pos := func() int {
			switch d(10) {
			case 0, 1, 2, 3, 4: // tail: footer and end of TOC
				w := 200
				if w > len(b) {
					w = len(b)
				}
				return len(b) - 1 - d(w)
			case 5, 6, 7: // last third (TOC region)
				return len(b) - 1 - d(len(b)/3+1)
			default:
				return d(len(b))
			}
		}
		p := pos()
		switch k := d(9); k {
		case 0, 1:
			b[p] ^= 1 << d(8)
			notes = append(notes, fmt.Sprintf("flip@%d", p))
		case 2:
			b[p] = []byte{0, 0xff, 0x7f, 0x80, '9', 'f', '-'}[d(7)]
			notes = append(notes, fmt.Sprintf("set@%d", p))
		case 3: // overwrite a run with one value (length / offset fields maxed or zeroed)
			v := []byte{0xff, 0, '9', 'f'}[d(4)]
			for j := 0; j < 1+d(16) && p+j < len(b); j++ {
				b[p+j] = v
			}
			notes = append(notes, fmt.Sprintf("run@%d", p))
		case 4:
			b = b[:p]
			notes = append(notes, fmt.Sprintf("truncate@%d", p))
		case 5:
			g := make([]byte, 1+d(64))
			for j := range g {
				g[j] = byte(d(256))
			}
			b = append(b, g...)
			notes = append(notes, "append-garbage")
		case 6: // duplicate a slice
			q := p + d(len(b)-p) + 1
			if q > len(b) {
				q = len(b)
			}
			b = append(append(append([]byte(nil), b[:q]...), b[p:q]...), b[q:]...)
			notes = append(notes, fmt.Sprintf("dup[%d,%d)", p, q))
		case 7: // delete a slice
			q := p + 1 + d(32)
			if q > len(b) {
				q = len(b)
			}
			b = append(append([]byte(nil), b[:p]...), b[q:]...)
			notes = append(notes, fmt.Sprintf("del[%d,%d)", p, q))
		default: // swap two bytes
			q := pos()
			b[p], b[q] = b[q], b[p]
			notes = append(notes, fmt.Sprintf("swap %d<->%d", p, q))
		}
	}
	return b, notes
}

// craftFooter rewrites the 16 hex digits of a gzip eStargz footer (they sit in the gzip header's extra field, which
// no checksum covers) with hostile spellings of hostile numbers, or replaces the footer by a legacy stargz footer.
func craftFooter(d func(int) int, b []byte) ([]byte, []string) {
	i := bytes.LastIndex(b, []byte("STARGZ"))
	if i < 16 || len(b) < estargz.FooterSize {
		return b, nil
	}
	b = append([]byte(nil), b...)
	real, _ := strconv.ParseInt(string(b[i-16:i]), 16, 64)
	vals := []int64{real, 0, 1, real - 1, real + 1, int64(len(b)), int64(len(b)) - estargz.FooterSize, int64(len(b)) + 1, 1 << 58, 0xe8}
	v := vals[d(len(vals))]
	var s string
	switch d(7) {
	case 0:
		s = fmt.Sprintf("-%015x", v)
	case 1:
		s = fmt.Sprintf("+%015x", v)
	case 2:
		s = fmt.Sprintf("%016X", v)
	case 3:
		s = "ffffffffffffffff"
	case 4:
		s = "7fffffffffffffff"
	case 5:
		s = fmt.Sprintf("%16x", v)
	default:
		s = fmt.Sprintf("%016x", v)
	}
	note := "footer-offset=" + s
	if d(4) == 0 { // legacy stargz footer: the extra field holds the digits and the magic without a subfield header
		var f bytes.Buffer
		zw, _ := gzip.NewWriterLevel(&f, gzip.NoCompression)
		zw.Extra = []byte(s + "STARGZ")
		zw.Close()
		b = append(b[:len(b)-estargz.FooterSize], f.Bytes()...)
		note += ",legacy"
	} else {
		copy(b[i-16:i], s)
	}
	return b, []string{note}
}

// ---- adversarial TOC grammar -----------------------------------------------------

func advTOC(d func(int) int, payloadLen int64, maxDepth int) ([]byte, []string) {
	var ents []*estargz.TOCEntry
	var notes []string
	names := []string{"a", "a/b", "a/b/c", "d", "e/", "./f", "../g", "/h", "", ".", "..", "a/../a", "a//b", "x/y/z/w", "a/b/", "stargz.index.json", ".prefetch.landmark", ".wh.a", ".wh..wh..opq"}
	types := []string{"dir", "reg", "reg", "reg", "chunk", "symlink", "hardlink", "hardlink", "char", "block", "fifo", "unknown", ""}
	big := []int64{0, 1, -1, 17, 1 << 20, 1 << 40, 1<<62 + 5, -(1 << 62), payloadLen, payloadLen - 1, payloadLen + 1}
	n := 1 + d(12)
	var regNames []string
	for i := 0; i < n; i++ {
		e := &estargz.TOCEntry{Name: names[d(len(names))], Type: types[d(len(types))], Mode: int64([]int{0644, 0755, 0, -1, 0777 | 1<<31}[d(5)])}
		if d(4) == 0 {
			e.Name = strings.Repeat("d/", 1+d(40)) + "leaf"
		}
		switch e.Type {
		case "reg":
			e.Size = big[d(len(big))]
			e.Offset = big[d(len(big))]
			if d(2) == 0 {
				e.Offset = int64(d(int(payloadLen) + 1))
				e.Size = int64(d(200))
			}
			e.ChunkSize = big[d(len(big))]
			e.ChunkOffset = []int64{0, 0, 0, -1, 5, 1 << 50}[d(6)]
			e.InnerOffset = []int64{0, 0, -1, 1 << 50, 3}[d(5)]
			if d(3) != 0 {
				e.Digest = digest.FromString(fmt.Sprint(i)).String()
				e.ChunkDigest = e.Digest
			} else if d(2) == 0 {
				e.ChunkDigest = []string{"", "sha256:zz", "md5:abc", "sha256:" + strings.Repeat("0", 64)}[d(4)]
			}
			regNames = append(regNames, e.Name)
		case "chunk":
			if len(regNames) > 0 && d(3) != 0 {
				e.Name = regNames[d(len(regNames))]
			}
			e.Offset = big[d(len(big))]
			e.ChunkOffset = big[d(len(big))]
			e.ChunkSize = big[d(len(big))]
			e.InnerOffset = []int64{0, -1, 1 << 40}[d(3)]
			e.ChunkDigest = digest.FromString("c" + fmt.Sprint(i)).String()
		case "hardlink":
			// links to itself, to directories, to ancestors, to other links, to missing names
			e.LinkName = names[d(len(names))]
			if d(4) == 0 {
				e.LinkName = e.Name
			}
		case "symlink":
			e.LinkName = []string{"a", "/", "..", strings.Repeat("x", 5000)}[d(4)]
		case "char", "block":
			e.DevMajor, e.DevMinor = []int{0, 1, -1, 1 << 30}[d(4)], []int{0, 1, -1, 1 << 30}[d(4)]
		}
		if d(6) == 0 {
			e.Xattrs = map[string][]byte{"": nil, "user.x": []byte("v"), strings.Repeat("k", 300): bytes.Repeat([]byte{0}, 10)}
		}
		if d(5) == 0 {
			e.ModTime3339 = []string{"", "not a time", "9999-99-99T00:00:00Z", "1970-01-01T00:00:00Z"}[d(4)]
		}
		ents = append(ents, e)
	}
	// specific traps
	switch d(8) {
	case 0: // two-entry hard link cycle
		ents = append(ents, &estargz.TOCEntry{Name: "cyc1", Type: "hardlink", LinkName: "cyc2"}, &estargz.TOCEntry{Name: "cyc2", Type: "hardlink", LinkName: "cyc1"})
		notes = append(notes, "hardlink-cycle")
	case 1: // hard link from inside a directory to that directory
		ents = append(ents, &estargz.TOCEntry{Name: "loop/", Type: "dir", Mode: 0755}, &estargz.TOCEntry{Name: "loop/in", Type: "hardlink", LinkName: "loop"})
		notes = append(notes, "hardlink-to-ancestor")
	case 2: // very deep tree
		ents = append(ents, &estargz.TOCEntry{Name: strings.Repeat("q/", 300+d(maxDepth)) + "f", Type: "reg", Size: 1, Offset: 0, ChunkDigest: digest.FromString("x").String(), Digest: digest.FromString("x").String()})
		notes = append(notes, "deep-tree")
	case 3: // overlapping / unsorted chunks of one file
		dg := digest.FromString("o").String()
		ents = append(ents, &estargz.TOCEntry{Name: "ov", Type: "reg", Size: 100, Offset: 0, ChunkSize: 60, ChunkDigest: dg, Digest: dg},
			&estargz.TOCEntry{Name: "ov", Type: "chunk", Offset: 0, ChunkOffset: 30, ChunkSize: 90, ChunkDigest: dg},
			&estargz.TOCEntry{Name: "ov", Type: "chunk", Offset: 0, ChunkOffset: 10, ChunkSize: 0, ChunkDigest: dg})
		notes = append(notes, "overlapping-chunks")
	case 5: // chunks that leave a hole in the file, aligned or not
		dg := digest.FromBytes(bytes.Repeat([]byte{'a'}, 10)).String() // (what the first payload member starts with: the first chunk verifies)
		co := []int64{20, 25, 11}[d(3)]
		ents = append(ents, &estargz.TOCEntry{Name: "hole", Type: "reg", Size: 30, Offset: 0, ChunkSize: 10, ChunkDigest: dg, Digest: dg, Mode: 0644},
			&estargz.TOCEntry{Name: "hole", Type: "chunk", Offset: 0, ChunkOffset: co, ChunkSize: []int64{10, 0, 5}[d(3)], ChunkDigest: dg})
		notes = append(notes, fmt.Sprintf("chunk-hole@%d", co))
	case 4: // a subtree hanging under a non-directory, 1-3 levels down (intermediate directories implied), linking back to it
		typ := []string{"reg", "symlink", "char", "hardlink"}[d(4)]
		top := &estargz.TOCEntry{Name: "nd", Type: typ, Mode: 0644}
		if typ == "hardlink" {
			ents = append(ents, &estargz.TOCEntry{Name: "ndt", Type: "reg", Mode: 0644})
			top.LinkName = "ndt"
		}
		leaf := &estargz.TOCEntry{Name: "nd/" + strings.Repeat("m/", d(3)) + "l", Type: []string{"hardlink", "hardlink", "reg", "dir"}[d(4)], Mode: 0755}
		if leaf.Type == "hardlink" {
			leaf.LinkName = "nd"
		}
		ents = append(ents, top, leaf)
		notes = append(notes, "subtree-under-non-directory")
	}
	ver := []int{1, 1, 0, 2, -1}[d(5)]
	j, _ := json.Marshal(&estargz.JTOC{Version: ver, Entries: ents})
	if d(6) == 0 {
		j = append(j, []byte("  \n\t ")...)
	}
	if d(10) == 0 {
		j, _ = mutate(d, j)
		notes = append(notes, "json-mutated")
	}
	return j, notes
}

// wrapTOC builds a blob: payload members, a gzip member holding a tar with the TOC JSON, the footer.
func wrapTOC(payload, tocJSON []byte) []byte {
	var buf bytes.Buffer
	buf.Write(payload)
	tocOff := int64(buf.Len())
	zw, _ := gzip.NewWriterLevel(&buf, gzip.BestSpeed)
	tw := tar.NewWriter(zw)
	tw.WriteHeader(&tar.Header{Typeflag: tar.TypeReg, Name: estargz.TOCTarName, Size: int64(len(tocJSON))})
	tw.Write(tocJSON)
	tw.Close()
	zw.Close()
	extra := append([]byte{'S', 'G', 22, 0}, []byte(fmt.Sprintf("%016xSTARGZ", tocOff))...)
	buf.Write(estargz.CreateGzipFooter(extra))
	return buf.Bytes()
}

func gzMember(data []byte) []byte {
	var b bytes.Buffer
	zw, _ := gzip.NewWriterLevel(&b, gzip.BestSpeed)
	zw.Write(data)
	zw.Close()
	return b.Bytes()
}

type extComp struct {
	*externaltoc.GzipCompressor
	*externaltoc.GzipDecompressor
}

// ---- the run ---------------------------------------------------------------------

func run(t *testing.T, tape *simrt.Tape) *hx.Outcome {
	out := &hx.Outcome{Counters: map[string]int{}}
	d := func(n int) int { return tape.Draw("gen", n) }
	c := func(n int) int { return tape.Draw("cfg", n) }
	useDB := tape.Draw("cfg.db", 2) == 1
	campaign := []string{"mutated-blob", "mutated-blob", "adversarial-toc", "adversarial-toc", "hostile-http", "builder-input"}[c(6)]
	out.Counters["campaign."+campaign]++
	var served []byte
	var tocDigest digest.Digest
	var notes []string
	var extTOC []byte // external TOC bytes (externaltoc campaign variant)
	variant := ""
	cs := []int{8, 17, 64}[d(3)]
	spec := common.GenTar(d, tape.Seed, common.GenOpts{ChunkSize: cs, MaxEntries: 8})
	tarBytes := spec.Bytes()
	switch campaign {
	case "mutated-blob", "hostile-http":
		v := d(3)
		variant = []string{"gzip", "zstd", "external-toc"}[v]
		if v == 2 {
			// external TOC: build with the externaltoc compressor; the TOC lives outside the blob
			unpin := common.PinProcs()
			comp := externaltoc.NewGzipCompressorWithLevel(1)
			b, err := estargz.Build(io.NewSectionReader(bytes.NewReader(tarBytes), 0, int64(len(tarBytes))), estargz.WithChunkSize(cs),
				estargz.WithCompression(&extComp{comp, externaltoc.NewGzipDecompressor(func() ([]byte, error) { return nil, fmt.Errorf("unused") })}))
			if err != nil {
				unpin()
				out.InfraErr = "build(ext): " + err.Error()
				return out
			}
			served, _ = io.ReadAll(b)
			b.Close()
			unpin()
			tocDigest = b.TOCDigest()
			var tb bytes.Buffer
			if _, err := comp.WriteTOCTo(&tb); err != nil {
				out.InfraErr = "ext toc: " + err.Error()
				return out
			}
			extTOC = tb.Bytes()
			if campaign == "mutated-blob" {
				if d(2) == 0 {
					extTOC, notes = mutate(d, extTOC)
				} else {
					served, notes = mutate(d, served)
				}
			}
		} else {
			bc := common.BuildCfg{ChunkSize: cs, Compression: v, Workers: 1}
			if d(3) == 0 {
				bc.MinChunkSize = 3 * cs
			}
			built, err := common.BuildBlob(tarBytes, bc)
			if err != nil {
				out.InfraErr = "build: " + err.Error()
				return out
			}
			served, tocDigest = built.Blob, built.TOCDigest
			if campaign == "mutated-blob" {
				if v == 0 && d(4) == 0 {
					served, notes = craftFooter(d, served)
					if d(2) == 0 {
						var more []string
						served, more = mutate(d, served)
						notes = append(notes, more...)
					}
				} else {
					served, notes = mutate(d, served)
				}
			}
		}
	case "adversarial-toc":
		variant = "gzip"
		var payload []byte
		for i := 0; i < 1+d(3); i++ {
			payload = append(payload, gzMember(bytes.Repeat([]byte{byte('a' + i)}, 1+d(300)))...)
		}
		var tj []byte
		// The db store builds deep paths in cubic time (3000 levels: 21 s natively, measured; see DESIGN.md
		// observations) - slow, not a dead loop; keep its trees shallow enough for the per-run time limit.
		maxDepth := 12000
		if useDB {
			maxDepth = 400
		}
		tj, notes = advTOC(d, int64(len(payload)), maxDepth)
		tocDigest = digest.FromBytes(tj)
		if os.Getenv("VERIF_DUMP") != "" {
			fmt.Fprintf(os.Stderr, "TOC: %s\n", tj)
		}
		served = wrapTOC(payload, tj)
	case "builder-input":
		variant = "tar"
	}
	fcfg := config.Config{
		HTTPCacheType: []string{"memory", ""}[c(2)], FSCacheType: []string{"memory", ""}[c(2)], PrefetchTimeoutSec: 10, NoPrometheus: true,
		BlobConfig:           config.BlobConfig{ChunkSize: []int64{16, 300, 50000}[c(3)], FetchTimeoutSec: 30, MaxRetries: 1, MinWaitMSec: 10, MaxWaitMSec: 100, ValidInterval: 60},
		DirectoryCacheConfig: config.DirectoryCacheConfig{MaxLRUCacheEntry: 1 + c(3), MaxCacheFds: 1 + c(3), SyncAdd: c(2) == 1, Direct: c(3) == 0},
	}
	if c(3) == 0 && fcfg.FSCacheType == "" {
		fcfg.PassThrough = true
		fcfg.MergeBufferSize = int64([]int{cs, 4 * cs, 1 << 20}[c(3)])
		// chunk boundaries need not be aligned to the merge buffer (own stream: older tapes replay unchanged)
		switch tape.Draw("cfg.mbuf", 4) {
		case 1:
			fcfg.MergeBufferSize++
		case 2:
			if fcfg.MergeBufferSize > 2 {
				fcfg.MergeBufferSize--
			}
		case 3:
			fcfg.MergeBufferSize += int64(cs/2 + 1)
		}
		fcfg.MergeWorkerCount = 1 + c(3)
		if tape.Draw("cfg.mwc", 6) == 0 {
			fcfg.MergeWorkerCount = 0 // unset (nothing applies the config struct's default tags)
		}
	}
	root, cleanup := hx.RunDir()
	defer cleanup()
	var bdb *bolt.DB
	store := metadata.Store(memorymetadata.NewReader)
	if useDB && campaign != "builder-input" {
		var err error
		bdb, err = bolt.Open(filepath.Join(root, "metadata.db"), 0600, &bolt.Options{NoSync: true, InitialMmapSize: 64 << 20})
		if err != nil {
			out.InfraErr = "bolt: " + err.Error()
			return out
		}
		defer bdb.Close()
		store = func(sr *io.SectionReader, opts ...metadata.Option) (metadata.Reader, error) {
			return dbmetadata.NewReader(bdb, sr, opts...)
		}
	}
	mounted, walked, reads := 0, 0, 0
	res := simrt.Run(t, tape, simrt.Options{MaxSteps: 5000000, HangAfter: 2 * time.Hour}, func(s *simrt.Sim, mt *simrt.Task) {
		s.Procs = 1 + s.Tape.Draw("cfg", 3)
		s.UseDisk(simrt.DiskCfg{Yield: false})
		if campaign == "builder-input" {
			in, nn := mutate(d, tarBytes)
			notes = nn
			if d(3) == 0 {
				in, _ = mutate(d, gzMember(tarBytes))
			}
			prio := []string{"a", "nosuch"}[:d(3)]
			if d(2) == 0 {
				// a well-formed tar with hostile structure: several entries of types the builder does not
				// support (more of them than build workers), hard links in a cycle that is also prioritized,
				// links to missing names, zero-length and oversized-looking entries
				var tb bytes.Buffer
				tw := tar.NewWriter(&tb)
				nbad := d(9)
				for i := 0; i < nbad; i++ {
					tw.WriteHeader(&tar.Header{Name: fmt.Sprintf("u%d", i), Typeflag: []byte{tar.TypeCont, 'S', 'V', 'M', 'D'}[d(5)], Mode: 0644, Format: tar.FormatGNU})
				}
				if d(2) == 0 {
					tw.WriteHeader(&tar.Header{Name: "ca", Typeflag: tar.TypeLink, Linkname: "cb", Mode: 0644})
					tw.WriteHeader(&tar.Header{Name: "cb", Typeflag: tar.TypeLink, Linkname: "ca", Mode: 0644})
					if d(2) == 0 {
						prio = append(prio, "ca")
					}
				}
				if d(3) == 0 {
					tw.WriteHeader(&tar.Header{Name: "dangling", Typeflag: tar.TypeLink, Linkname: "nowhere", Mode: 0644})
					prio = append(prio, "dangling")
				}
				if d(2) == 0 { // (without any payload the builder gives every entry a part of its own)
					tw.WriteHeader(&tar.Header{Name: "a", Typeflag: tar.TypeReg, Mode: 0644, Size: 3})
					tw.Write([]byte("abc"))
				}
				tw.Close()
				in = tb.Bytes()
				notes = append(notes, fmt.Sprintf("hostile-tar(unsupported=%d)", nbad))
			}
			if d(4) == 0 {
				// the Writer API (used by lossless conversion) on a stream that only looks like gzip
				bad := append([]byte{0x1f, 0x8b, 0x08}, in[:min(len(in), 40)]...)
				for _, lossless := range []bool{false, true} {
					w := estargz.NewWriter(io.Discard)
					w.ChunkSize = cs
					if lossless {
						w.AppendTarLossLess(bytes.NewReader(bad))
					} else {
						w.AppendTar(bytes.NewReader(bad))
					}
				}
				notes = append(notes, "writer-on-fake-gzip")
			}
			b, err := estargz.Build(io.NewSectionReader(bytes.NewReader(in), 0, int64(len(in))), estargz.WithChunkSize(cs), estargz.WithParallelism(1+d(3)),
				estargz.WithPrioritizedFiles(prio), estargz.WithAllowPrioritizeNotFound(new([]string)))
			if err == nil {
				io.Copy(io.Discard, b)
				b.Close()
				out.Counters["builder_accepted"]++
			} else {
				out.Counters["builder_rejected"]++
			}
			if _, err := estargz.Unpack(io.NewSectionReader(bytes.NewReader(in), 0, int64(len(in))), new(estargz.GzipDecompressor)); err == nil {
				out.Counters["unpack_accepted"]++
			}
			return
		}
		reg := simreg.New(s, simreg.Config{Base: simreg.Personality(s.Tape.Draw("cfg", int(simreg.NumPersonalities))), Fickle: campaign == "hostile-http", ReadYield: false})
		dg := digest.FromBytes(served)
		reg.Blobs[dg.String()] = served
		if campaign == "hostile-http" && variant == "gzip" && s.Tape.Draw("hostile", 4) == 0 {
			// a registry that lies consistently about the size of the blob: the honest payload and
			// TOC at the front, zeros, and the honest footer at the claimed end (whose TOC offset
			// therefore points far away from the end)
			virt := []int64{1 << 20, 1 << 32, 1 << 40, 1<<56 - 1}[s.Tape.Draw("hostile", 4)]
			const fsz = 51
			real := int64(len(served))
			s.Stat("fault.lying_size", 1)
			notes = append(notes, fmt.Sprintf("lying-size=%d", virt))
			reg.Extra = func(rec *simreg.Request, req *http.Request) *http.Response {
				if !strings.Contains(req.URL.Path, "/blobs/"+dg.String()) || real < fsz {
					return nil
				}
				mk := func(code int, h http.Header, body []byte) *http.Response {
					if h == nil {
						h = http.Header{}
					}
					return &http.Response{StatusCode: code, Status: fmt.Sprintf("%d %s", code, http.StatusText(code)), Header: h, Body: io.NopCloser(bytes.NewReader(body)),
						ContentLength: int64(len(body)), Request: req, Proto: "HTTP/1.1", ProtoMajor: 1, ProtoMinor: 1}
				}
				if req.Method == http.MethodHead {
					r := mk(200, http.Header{"Content-Length": []string{fmt.Sprint(virt)}}, nil)
					r.ContentLength = virt
					return r
				}
				rg := req.Header.Get("Range")
				var a, b int64
				if n, _ := fmt.Sscanf(rg, "bytes=%d-%d", &a, &b); n != 2 || strings.Contains(rg, ",") || a < 0 || a > b || a >= virt {
					return mk(400, nil, nil) // single ranges only
				}
				if b >= virt {
					b = virt - 1
				}
				if b-a+1 > 1<<16 {
					b = a + 1<<16 - 1 // a registry may answer with less than was asked for
				}
				body := make([]byte, b-a+1)
				for i := range body {
					switch pos := a + int64(i); {
					case pos < real-fsz:
						body[i] = served[pos]
					case pos >= virt-fsz:
						body[i] = served[real-(virt-pos)]
					}
				}
				return mk(206, http.Header{"Content-Range": []string{fmt.Sprintf("bytes %d-%d/%d", a, b, virt)}, "Content-Length": []string{fmt.Sprint(len(body))}}, body)
			}
		} else if campaign == "hostile-http" {
			reg.PostHook = func(rec *simreg.Request, req *http.Request, resp *http.Response) *http.Response {
				dr := func(n int) int { return s.Tape.Draw("hostile", n) }
				if dr(3) != 0 {
					return resp
				}
				s.Stat("fault.hostile_http", 1)
				switch dr(8) {
				case 0:
					resp.Header.Set("Content-Range", []string{"bytes 5-1/10", "bytes -1-5/10", "bytes 0-99999999999999999999/5", "bytes 0-0/*", "garbage", "bytes 9223372036854775806-9223372036854775807/9223372036854775807", "bytes 0-10/3"}[dr(7)])
				case 1:
					resp.Header.Set("Content-Length", []string{"-1", "99999999999999999999", "abc", "0", "9223372036854775807"}[dr(5)])
				case 2:
					resp.Header.Set("Content-Type", []string{"multipart/byteranges", "multipart/byteranges; boundary=", "multipart/x; boundary=\"", ";;;", "multipart/byteranges; boundary=nope"}[dr(5)])
				case 3:
					resp.StatusCode = []int{200, 206, 301, 302, 307, 0, 999, 204, 416}[dr(9)]
					if resp.StatusCode/100 == 3 {
						resp.Header.Set("Location", []string{"", "://bad", "https://reg.example/v2/repo/img/blobs/" + dg.String(), "https://cdn.example/loop"}[dr(4)])
					}
				case 4:
					resp.Body = io.NopCloser(bytes.NewReader(nil))
				case 5:
					b, _ := io.ReadAll(resp.Body)
					b, _ = mutate(dr, b)
					resp.Body = io.NopCloser(bytes.NewReader(b))
				case 6:
					resp.Header.Del("Content-Range")
					resp.Header.Del("Content-Length")
				default:
					resp.Header = http.Header{}
				}
				return resp
			}
		}
		tm := task.NewBackgroundTaskManager(2, time.Second)
		var addl func(context.Context, source.RegistryHosts, reference.Spec, ocispec.Descriptor) []metadata.Decompressor
		if variant == "external-toc" {
			addl = func(context.Context, source.RegistryHosts, reference.Spec, ocispec.Descriptor) []metadata.Decompressor {
				return []metadata.Decompressor{externaltoc.NewGzipDecompressor(func() ([]byte, error) { return extTOC, nil })}
			}
		}
		rs, err := layer.NewResolver(filepath.Join(root, "r"), tm, fcfg, nil, store, layer.OverlayOpaqueAll, addl)
		if err != nil {
			s.Fail("harness", "NewResolver: %v", err)
			return
		}
		refspec, _ := reference.Parse("reg.example/repo/img:latest")
		desc := ocispec.Descriptor{Digest: dg, Size: int64(len(served)), MediaType: ocispec.MediaTypeImageLayerGzip}
		hosts := common.Hosts(reg, 20*time.Second, nil, s.Tape.Draw("cfg", 2) == 1)
		l, err := rs.Resolve(context.Background(), hosts, refspec, desc)
		if err != nil {
			s.Event("resolve rejected")
			out.Counters["resolve_rejected"]++
			return
		}
		// prefetch / background fetch run concurrently with everything else, like after fs.Mount
		pf := s.Go("prefetch", func(*simrt.Task) { l.Prefetch(int64(s.Tape.Draw("cfg", len(served)+1))) })
		bg := s.Go("bgfetch", func(*simrt.Task) { l.BackgroundFetch() })
		if s.Tape.Draw("cfg", 3) == 0 {
			l.SkipVerify()
		} else if err := l.Verify(tocDigest); err != nil {
			out.Counters["verify_rejected"]++
			l.SkipVerify() // keep going unverified: parsers and readers must still not crash
		}
		rn, err := l.RootNode(0)
		if err != nil {
			out.Counters["rootnode_rejected"]++
			mt.Join(pf, bg)
			l.Done()
			return
		}
		mounted++
		tree := common.NewTree(rn)
		tree.StateJSON()
		// bounded walk of whatever tree the (possibly hostile) TOC describes
		budget := 150
		var walk func(n fusefs.InodeEmbedder, depth int)
		walk = func(n fusefs.InodeEmbedder, depth int) {
			if budget <= 0 || depth > 40 || s.Failed() {
				return
			}
			budget--
			walked++
			tree.Getattr(n)
			tree.Listxattr(n)
			tree.Getxattr(n, "user.x")
			tree.Getxattr(n, "trusted.overlay.opaque")
			tree.Readlink(n)
			ents, errno := tree.Readdir(n)
			if errno != 0 {
				// not a directory (or EIO): try it as a file
				if fh, errno := tree.Open(n); errno == 0 && fh != nil {
					for k := 0; k < 3; k++ {
						off := []int64{0, 1, 7, 1 << 20, 1<<62 - 1}[s.Tape.Draw("walk", 5)]
						tree.Read(fh, off, []int{1, 17, 4096, 70000}[s.Tape.Draw("walk", 4)])
						reads++
					}
					tree.Release(fh)
				}
				return
			}
			lk, ok := n.(fusefs.NodeLookuper)
			if !ok {
				return
			}
			for i, e := range ents {
				if i > 12 || e.Name == "." || e.Name == ".." {
					continue
				}
				var eo fuseEntryOut
				in, errno := lk.Lookup(context.Background(), e.Name, &eo)
				if errno != 0 || in == nil {
					continue
				}
				walk(in.Operations(), depth+1)
			}
			for _, nm := range []string{"nosuch", "", ".", "..", ".wh.a", "a", strings.Repeat("n", 300)} {
				var eo fuseEntryOut
				lk.Lookup(context.Background(), nm, &eo)
			}
		}
		walk(rn, 0)
		l.WaitForPrefetchCompletion()
		mt.Join(pf, bg)
		// a second mount of the same (cached) layer after prefetch and background fetch have met whatever the
		// bytes hold: resolving and verifying it again must return, too
		if l2, err := rs.Resolve(context.Background(), hosts, refspec, desc); err == nil {
			if err := l2.Verify(tocDigest); err != nil {
				s.Stat("second_verify_failed", 1)
			}
			l2.Done()
		}
		l.Done()
	})
	out.Res = res
	out.Counters["mounted"] += mounted
	out.Counters["nodes_walked"] += walked
	out.Counters["reads"] += reads
	out.Nontrivial = campaign == "builder-input" || mounted > 0 || len(notes) > 0
	out.Signature = fmt.Sprintf("%s/%s/db%v/%s/%s/pt%v/%s", campaign, variant, useDB, fcfg.HTTPCacheType, fcfg.FSCacheType, fcfg.PassThrough, strings.Join(notes, ","))
	out.Sample = map[string]any{"campaign": campaign, "variant": variant, "mutations": notes, "store_db": useDB, "blob_len": len(served), "mounted": mounted, "nodes_walked": walked, "reads": reads}
	return out
}

func TestC04(t *testing.T) {
	hx.Main(t, hx.Prop{
		ID:               "C04",
		Rule:             "each run belongs to one campaign: (1) a blob built by the real builder (gzip eStargz, zstd:chunked, external-TOC incl. the external TOC itself) and mutated by 1-3 byte-level operations biased to the footer and TOC region (bit flips, maxed/zeroed runs, truncation, garbage, duplicated/deleted/swapped slices); (2) an adversarial TOC from a grammar (hard-link cycles and links to directories/ancestors/self, negative and huge sizes/offsets/chunk fields, overlapping and unsorted chunks, empty/dot/dot-dot/duplicate names, missing or malformed digests, unknown types, trees up to 12000 levels deep, odd versions, trailing whitespace) wrapped into a well-formed blob and verified with its real digest; (3) an honest blob behind a hostile transport (bogus Content-Range/Content-Length/Content-Type, odd status codes and Locations, empty or mutated bodies); (4) mutated tar/gzip handed to Build and Unpack. The layer is resolved through the full stack (both metadata stores, memory/dir caches, passthrough), mounted verified or unverified, walked with a bounded tree walk (readdir, lookup, getattr, xattrs, readlink, open, reads at extreme offsets) while Prefetch and BackgroundFetch run. After the walk the same cached layer is resolved and verified a second time (a second mount after prefetch and background fetch have met the bytes). Mutated gzip blobs also get crafted footers (signed / upper-case / blank-padded / extreme hex offsets, legacy footer form); passthrough runs draw merge buffer sizes that are not multiples of the chunk size and may leave the worker count unset. Any panic, fatal error (child death under ulimit -v 8 GiB), dead loop (60 s real time) or simulated hang is a violation. non-trivial = the input was mutated or mounted; distinct = schedule hash x campaign x mutation list",
		Run:              run,
		PanicIsViolation: true,
		HangIsViolation:  true,
		CrashIsViolation: true,
		Components:       map[string]string{"estargz, zstdchunked, externaltoc parsers; metadata/memory; db store on bolt; fs/layer node; fs/reader; fs/remote": "real (instrumented copy)", "registry": "stub: Byzantine bytes / hostile HTTP metadata", "kernel FUSE": "stub (node interfaces)"},
		Assumptions:      []string{"legacy stargz footers are only reached through mutation (the builder cannot emit them)", "memory bound: 8 GiB address space per child"},
	})
}
