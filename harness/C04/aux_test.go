package c04

import "github.com/hanwen/go-fuse/v2/fuse"

type fuseEntryOut = fuse.EntryOut
