// C05 — memory and DB metadata stores expose the same filesystem for the same blob.
// Real: metadata/memory, cmd/containerd-stargz-grpc/db on one real bolt file shared by all
// layers of a run, estargz (builder and parsers). Stub: none (blob bytes in memory, read through
// a fault-injecting io.ReaderAt).
package c05

import (
	"archive/tar"
	"bytes"
	"compress/gzip"
	"encoding/json"
	"errors"
	"fmt"
	"io"
	"os"
	"path/filepath"
	"sort"
	"strings"
	"testing"
	"time"

	dbmetadata "github.com/containerd/stargz-snapshotter/cmd/containerd-stargz-grpc/db"
	"github.com/containerd/stargz-snapshotter/estargz"
	"github.com/containerd/stargz-snapshotter/estargz/zstdchunked"
	"github.com/containerd/stargz-snapshotter/metadata"
	memorymetadata "github.com/containerd/stargz-snapshotter/metadata/memory"
	"github.com/containerd/stargz-snapshotter/zzverif/common"
	digest "github.com/opencontainers/go-digest"
	bolt "go.etcd.io/bbolt"
	"verifsim/hx"
	"verifsim/simrt"
)

// ---- spec-conforming TOCs the builder never emits ---------------------------------

type hfile struct {
	name string
	data []byte
}

func gz(b []byte) []byte {
	var buf bytes.Buffer
	zw, _ := gzip.NewWriterLevel(&buf, gzip.BestSpeed)
	zw.Write(b)
	zw.Close()
	return buf.Bytes()
}

// handBlob writes a blob by the documented rules: one gzip member per chunk (or several chunks per
// member with innerOffset), TOC JSON in a tar in the last member, footer with the TOC offset.
func handBlob(d func(int) int, seed uint64, invalid int) ([]byte, []string) {
	var notes []string
	var payload bytes.Buffer
	var ents []*estargz.TOCEntry
	mt := "2021-01-01T00:00:00Z"
	cs := []int{5, 16, 40}[d(3)]
	inner := d(3) == 0 // several chunks share one stream
	if inner {
		notes = append(notes, "inner-offset-streams")
	}
	addFile := func(name string, data []byte, withDigest bool) {
		first := true
		var streamStart int64 = -1
		var stream bytes.Buffer
		flush := func() {
			if stream.Len() > 0 {
				payload.Write(gz(stream.Bytes()))
				stream.Reset()
			}
			streamStart = -1
		}
		if len(data) == 0 {
			e := &estargz.TOCEntry{Name: name, Type: "reg", Mode: 0644, ModTime3339: mt, NumLink: 1}
			if withDigest {
				e.Digest = digest.FromBytes(data).String()
			}
			ents = append(ents, e)
			return
		}
		for off := 0; off < len(data); off += cs {
			end := off + cs
			if end > len(data) {
				end = len(data)
			}
			e := &estargz.TOCEntry{Name: name, Type: "chunk", ChunkOffset: int64(off), ChunkDigest: digest.FromBytes(data[off:end]).String()}
			if first {
				e.Type, e.Size, e.Mode, e.ModTime3339 = "reg", int64(len(data)), 0644, mt
				if withDigest {
					e.Digest = digest.FromBytes(data).String()
				}
				first = false
			}
			if end < len(data) {
				e.ChunkSize = int64(end - off)
			}
			if inner {
				if streamStart < 0 {
					streamStart = int64(payload.Len())
				}
				e.Offset = streamStart
				e.InnerOffset = int64(stream.Len())
				stream.Write(data[off:end])
				if stream.Len() >= 3*cs {
					flush()
				}
			} else {
				e.Offset = int64(payload.Len())
				payload.Write(gz(data[off:end]))
			}
			ents = append(ents, e)
		}
		flush()
	}
	dir := func(name string) *estargz.TOCEntry {
		return &estargz.TOCEntry{Name: name, Type: "dir", Mode: 0755, ModTime3339: mt}
	}
	data := func(i, n int) []byte {
		b := make([]byte, n)
		for j := range b {
			b[j] = byte('a' + (i+j*7)%26)
		}
		return b
	}
	// a fixed skeleton with drawn unusual features
	ents = append(ents, dir("etc/"))
	addFile("etc/conf", data(1, 1+d(3*cs)), d(2) == 0)
	if d(2) == 0 { // implicit parent directories
		addFile("opt/deep/er/file", data(2, 1+d(2*cs)), true)
		notes = append(notes, "implicit-parents")
	}
	if d(2) == 0 { // repeated directory entry (second one wins / merges)
		e := dir("etc/")
		if d(2) == 0 {
			e.Mode = 0700
			e.UID = 7
		} else {
			// the first listing carries the non-zero attributes, the repetition resets them
			ents[0].UID, ents[0].GID = 7, 8
			ents[0].Xattrs = map[string][]byte{"user.first": []byte("1")}
			// several attributes on the first listing, fewer (or one, or an empty one) on the repetition
			switch d(4) {
			case 1:
				ents[0].Xattrs = map[string][]byte{"user.first": []byte("1"), "user.second": []byte("2"), "user.third": []byte("3")}
			case 2:
				ents[0].Xattrs = map[string][]byte{"user.first": []byte("1"), "user.second": []byte("2"), "user.third": []byte("3")}
				e.Xattrs = map[string][]byte{"user.last": []byte("9")}
			case 3:
				ents[0].Xattrs = map[string][]byte{"user.first": []byte("1"), "user.second": []byte("2")}
				e.Xattrs = map[string][]byte{"user.empty": {}, "user.second": []byte("x")}
			}
		}
		ents = append(ents, e)
		notes = append(notes, "repeated-dir")
	}
	if d(3) == 0 { // a regular file listed twice (as the Writer API emits for a tar with a duplicated name): the later entry replaces the earlier one
		addFile("etc/dup", data(7, 2*cs+3), true)
		addFile("etc/between", data(9, 1+d(cs)), true)
		addFile("etc/dup", data(8, 1+d(2*cs)), d(2) == 0)
		notes = append(notes, "repeated-file")
	}
	if d(2) == 0 { // hardlink to hardlink
		ents = append(ents, &estargz.TOCEntry{Name: "hl1", Type: "hardlink", LinkName: "etc/conf"}, &estargz.TOCEntry{Name: "hl2", Type: "hardlink", LinkName: "hl1"})
		notes = append(notes, "hardlink-chain")
	}
	if d(2) == 0 { // ./ and ../ spellings
		addFile("./dot/f", data(3, 1+d(cs)), true)
		ents = append(ents, &estargz.TOCEntry{Name: "dot/../dot/sym", Type: "symlink", LinkName: "../etc/conf", Mode: 0777, ModTime3339: mt})
		notes = append(notes, "dot-names")
	}
	if d(2) == 0 { // empty-valued xattr
		ents = append(ents, &estargz.TOCEntry{Name: "xa", Type: "reg", Mode: 0600, ModTime3339: mt, Xattrs: map[string][]byte{"user.empty": {}, "user.v": []byte("1")}})
		notes = append(notes, "empty-xattr")
	}
	if d(3) == 0 {
		ents = append(ents, &estargz.TOCEntry{Name: "dev/null", Type: "char", DevMajor: 1, DevMinor: 3, Mode: 0666, ModTime3339: mt},
			&estargz.TOCEntry{Name: "dev/", Type: "dir", Mode: 0755, ModTime3339: mt}) // directory listed after its child
		notes = append(notes, "dir-after-child")
	}
	addFile("empty", nil, d(2) == 0)
	addFile("big", data(4, 3*cs+d(cs)), true)
	switch invalid { // one entry that makes the TOC invalid: both stores must reject the blob (or both accept it)
	case 1:
		ents = append(ents, &estargz.TOCEntry{Name: "bad-hardlink", Type: "hardlink", LinkName: "no/such/target"})
		notes = append(notes, "INVALID:hardlink-to-missing-target")
	case 2:
		ents = append(ents, &estargz.TOCEntry{Name: "bad-size", Type: "reg", Size: -5, Mode: 0644, ModTime3339: mt, NumLink: 1})
		notes = append(notes, "INVALID:negative-size")
	}
	j, _ := json.Marshal(&estargz.JTOC{Version: 1, Entries: ents})
	if d(2) == 0 {
		j = append(j, []byte(" \n\t\n")...)
		notes = append(notes, "trailing-whitespace")
	}
	var buf bytes.Buffer
	buf.Write(payload.Bytes())
	tocOff := int64(buf.Len())
	zw, _ := gzip.NewWriterLevel(&buf, gzip.BestSpeed)
	tw := tar.NewWriter(zw)
	tw.WriteHeader(&tar.Header{Typeflag: tar.TypeReg, Name: estargz.TOCTarName, Size: int64(len(j))})
	tw.Write(j)
	tw.Close()
	zw.Close()
	extra := append([]byte{'S', 'G', 22, 0}, []byte(fmt.Sprintf("%016xSTARGZ", tocOff))...)
	buf.Write(estargz.CreateGzipFooter(extra))
	return buf.Bytes(), notes
}

// ---- fault-injecting blob reader --------------------------------------------------

type faultyAt struct {
	b   []byte
	s   *simrt.Sim
	den int
	off bool
}

var errInjected = errors.New("injected blob read error")

func (f *faultyAt) ReadAt(p []byte, off int64) (int, error) {
	if f.den > 0 && !f.off {
		if t := simrt.Cur(); t != nil && !t.IsDead() && f.s.Tape.Draw("blobfault:"+t.Label, f.den) == 0 {
			f.s.Stat("fault.blob_read", 1)
			return 0, errInjected
		}
	}
	if off >= int64(len(f.b)) {
		return 0, io.EOF
	}
	n := copy(p, f.b[off:])
	if n < len(p) {
		return n, io.EOF
	}
	return n, nil
}

// ---- observation of one reader -----------------------------------------------------

type obs struct {
	lines []string // canonical description of the whole filesystem
	err   string
	faulted bool
}

// describe walks a metadata.Reader and produces a canonical, id-independent description.
func describe(r metadata.Reader, probeReads bool, probes func(size int64) []int64) (o obs) {
	add := func(f string, a ...any) { o.lines = append(o.lines, fmt.Sprintf(f, a...)) }
	add("toc %s", r.TOCDigest())
	var walk func(id uint32, p string, depth int)
	walk = func(id uint32, p string, depth int) {
		if depth > 64 {
			add("%s: too deep", p)
			return
		}
		a, err := r.GetAttr(id)
		if err != nil {
			if errors.Is(err, errInjected) || strings.Contains(err.Error(), errInjected.Error()) {
				o.faulted = true
			}
			add("%s: getattr error", p)
			return
		}
		var xk []string
		for k, v := range a.Xattrs {
			xk = append(xk, fmt.Sprintf("%s=%x", k, v))
		}
		sort.Strings(xk)
		nl := a.NumLink
		if nl == 0 {
			nl = 1 // documented convention of metadata.Attr consumers: zero NumLink means one
		}
		add("%s: mode=%v size=%d mtime=%d link=%q uid=%d gid=%d dev=%d:%d nlink=%d xattrs=%v", p, a.Mode, a.Size, a.ModTime.Unix(), a.LinkName, a.UID, a.GID, a.DevMajor, a.DevMinor, nl, xk)
		if a.Mode.IsDir() {
			type ch struct {
				name string
				id   uint32
				mode os.FileMode
			}
			var cs []ch
			if err := r.ForeachChild(id, func(name string, cid uint32, mode os.FileMode) bool {
				cs = append(cs, ch{name, cid, mode})
				return true
			}); err != nil {
				add("%s: foreachchild error", p)
				return
			}
			sort.Slice(cs, func(i, j int) bool { return cs[i].name < cs[j].name })
			for _, c := range cs {
				// GetChild must agree with the listing
				gid, ga, err := r.GetChild(id, c.name)
				if err != nil {
					add("%s/%s: listed but GetChild fails", p, c.name)
					continue
				}
				if ga.Mode != c.mode {
					add("%s/%s: listing mode %v != GetChild mode %v", p, c.name, c.mode, ga.Mode)
				}
				if c.name == "" || c.name == "." {
					continue
				}
				walk(gid, p+"/"+c.name, depth+1)
			}
			if _, _, err := r.GetChild(id, "no-such-name"); err == nil {
				add("%s: GetChild of a missing name succeeds", p)
			}
			return
		}
		if !a.Mode.IsRegular() {
			return
		}
		off, err := r.GetOffset(id)
		if err != nil {
			add("%s: getoffset error", p)
		} else {
			add("%s: offset=%d", p, off)
		}
		f, err := r.OpenFile(id)
		if err != nil {
			add("%s: openfile error", p)
			return
		}
		for _, po := range probes(a.Size) {
			co, cz, cd, ok := f.ChunkEntryForOffset(po)
			add("%s: chunk@%d -> off=%d size=%d dgst=%s ok=%v", p, po, co, cz, cd, ok)
			if probeReads && ok && cz > 0 && cz < 1<<20 {
				b := make([]byte, cz)
				n, err := f.ReadAt(b, co)
				if err != nil && err != io.EOF {
					if strings.Contains(err.Error(), errInjected.Error()) {
						o.faulted = true
						add("%s: read@%d fault", p, co)
					} else {
						add("%s: read@%d error", p, co)
					}
				} else {
					add("%s: read@%d n=%d sha=%s", p, co, n, digest.FromBytes(b[:n]).Encoded()[:16])
				}
			}
		}
	}
	walk(r.RootID(), "", 0)
	return o
}

func diff(a, b []string) string {
	for i := 0; i < len(a) || i < len(b); i++ {
		var x, y string
		if i < len(a) {
			x = a[i]
		}
		if i < len(b) {
			y = b[i]
		}
		if x != y {
			return fmt.Sprintf("line %d: memory=%q db=%q", i, x, y)
		}
	}
	return ""
}

func run(t *testing.T, tape *simrt.Tape) *hx.Outcome {
	out := &hx.Outcome{Counters: map[string]int{}}
	d := func(n int) int { return tape.Draw("gen", n) }
	nLayers := 1 + d(3)
	type layerIn struct {
		blob  []byte
		notes []string
		kind  string
		zstd  bool
	}
	var layers []layerIn
	for i := 0; i < nLayers; i++ {
		if d(2) == 0 {
			inv := 0
			if tape.Draw("gen.invalid", 5) == 0 { // own stream: older tapes replay unchanged
				inv = 1 + tape.Draw("gen.invalid", 2)
			}
			b, notes := handBlob(d, tape.Seed+uint64(i), inv)
			kind := "hand-written"
			if inv != 0 {
				kind = "invalid"
			}
			layers = append(layers, layerIn{blob: b, notes: notes, kind: kind})
			continue
		}
		cs := []int{8, 17, 64, 50, 100}[d(5)]
		spec := common.GenTar(d, tape.Seed+uint64(i)*977, common.GenOpts{ChunkSize: cs, MaxEntries: 10, OddNames: d(2) == 0, BigFiles: d(2) == 0, Dups: d(3) == 0})
		bc := common.BuildCfg{ChunkSize: cs, Compression: d(2), Workers: 1 + d(2)}
		if d(3) == 0 {
			bc.MinChunkSize = 3 * cs
		}
		built, err := common.BuildBlob(spec.Bytes(), bc)
		if err != nil {
			out.InfraErr = "build: " + err.Error()
			return out
		}
		layers = append(layers, layerIn{blob: built.Blob, kind: "built", zstd: bc.Compression == 1, notes: []string{fmt.Sprintf("cs%d/min%d/z%d", cs, bc.MinChunkSize, bc.Compression)}})
	}
	faultDen := []int{0, 0, 25}[tape.Draw("cfg", 3)]
	root, cleanup := hx.RunDir()
	defer cleanup()
	bdb, err := bolt.Open(filepath.Join(root, "metadata.db"), 0600, &bolt.Options{NoSync: true, InitialMmapSize: 64 << 20})
	if err != nil {
		out.InfraErr = "bolt: " + err.Error()
		return out
	}
	defer bdb.Close()
	compared, rejected := 0, 0
	res := simrt.Run(t, tape, simrt.Options{MaxSteps: 400000, HangAfter: time.Hour}, func(s *simrt.Sim, mt *simrt.Task) {
		s.Procs = 1 + s.Tape.Draw("cfg", 3)
		s.UseDisk(simrt.DiskCfg{Yield: false})
		opts := []metadata.Option{metadata.WithDecompressors(new(zstdchunked.Decompressor))}
		type opened struct {
			mem, db metadata.Reader
			before  obs // description of the db reader while all layers were open
			fa      *faultyAt
		}
		open := make([]*opened, nLayers)
		probes := func(size int64) []int64 {
			ps := []int64{0, 1, size / 2, size, size + 5}
			if size > 0 {
				ps = append(ps, size-1) // file offsets are never negative
			}
			return ps
		}
		var ts []*simrt.Task
		for i := 0; i < nLayers; i++ {
			i := i
			ts = append(ts, s.Go(fmt.Sprintf("layer%d", i), func(t *simrt.Task) {
				li := layers[i]
				fa := &faultyAt{b: li.blob, s: s, den: faultDen}
				sr := io.NewSectionReader(fa, 0, int64(len(li.blob)))
				mr, merr := memorymetadata.NewReader(sr, opts...)
				t.Yield("between-stores")
				dr, derr := dbmetadata.NewReader(bdb, sr, opts...)
				// a reader may be cloned at once (the background fetch does, with its own blob reader), before any
				// call that waits for the db store's background parsing: the clones must agree like the originals
				var mclone, dclone metadata.Reader
				if merr == nil && derr == nil && s.Tape.Draw("clone:"+t.Label, 3) == 0 {
					var e1, e2 error
					dclone, e1 = dr.Clone(sr)
					mclone, e2 = mr.Clone(sr)
					if e1 != nil || e2 != nil {
						mclone, dclone = nil, nil
					}
				}
				var cmo, cdo obs
				if mclone != nil {
					// ... and are used at once
					cdo = describe(dclone, true, probes)
					cmo = describe(mclone, true, probes)
				}
				var dinit error
				if derr == nil {
					// the db store parses in the background: force completion to learn accept/reject
					_, dinit = dr.GetAttr(dr.RootID())
				}
				mfault := merr != nil && strings.Contains(merr.Error(), errInjected.Error())
				dfault := (derr != nil && strings.Contains(derr.Error(), errInjected.Error())) || (dinit != nil && strings.Contains(dinit.Error(), errInjected.Error()))
				if mfault || dfault {
					out.Counters["open_faulted"]++
					if mr != nil && merr == nil {
						mr.Close()
					}
					if dr != nil && derr == nil {
						dr.Close()
					}
					return
				}
				macc, dacc := merr == nil, derr == nil && dinit == nil
				if macc != dacc {
					s.Fail("accept-reject-differs", "layer %d (%s %v): memory store accepted=%v (%v), db store accepted=%v (%v / %v)", i, li.kind, li.notes, macc, merr, dacc, derr, dinit)
					return
				}
				if !macc {
					rejected++
					if li.kind == "built" || li.kind == "hand-written" {
						s.Fail("valid-blob-rejected", "layer %d (%s %v) is a valid blob but both stores reject it: memory: %v; db: %v %v", i, li.kind, li.notes, merr, derr, dinit)
					}
					return
				}
				fa.off = s.Tape.Draw(t.Label, 2) == 0 // faults during probing in half of the cases
				mo := describe(mr, true, probes)
				t.Yield("between-descriptions")
				do := describe(dr, true, probes)
				if mo.faulted || do.faulted {
					out.Counters["probe_faulted"]++
				} else if df := diff(mo.lines, do.lines); df != "" {
					s.Fail("stores-differ", "layer %d (%s %v): %s", i, li.kind, li.notes, df)
					return
				}
				compared++
				if mclone != nil && dclone != nil {
					mo, do := cmo, cdo
					if mo.faulted || do.faulted {
						out.Counters["probe_faulted"]++
					} else if df := diff(mo.lines, do.lines); df != "" {
						s.Fail("clones-differ", "layer %d (%s %v): readers cloned right after opening: %s", i, li.kind, li.notes, df)
						return
					}
					out.Counters["clones_compared"]++
				}
				fa.off = true
				open[i] = &opened{mem: mr, db: dr, fa: fa, before: describe(dr, true, probes)}
				s.Event("layer %d opened and compared (%d lines)", i, len(do.lines))
			}))
		}
		mt.Join(ts...)
		if s.Failed() {
			return
		}
		// close the layers one by one, in a drawn order; the others must stay intact
		order := s.Tape.Draw("cfg", 6)
		idx := []int{0, 1, 2}
		perm := [][]int{{0, 1, 2}, {0, 2, 1}, {1, 0, 2}, {1, 2, 0}, {2, 0, 1}, {2, 1, 0}}[order]
		_ = idx
		for _, k := range perm {
			if k >= nLayers || open[k] == nil {
				continue
			}
			if err := open[k].db.Close(); err != nil {
				s.Fail("close-error", "closing layer %d in the db store failed: %v", k, err)
				return
			}
			open[k].mem.Close()
			open[k] = nil
			for j, o := range open {
				if o == nil {
					continue
				}
				after := describe(o.db, true, probes)
				if df := diff(o.before.lines, after.lines); df != "" {
					s.Fail("close-affects-other-layer", "after closing layer %d, layer %d in the same database answers differently: %s", k, j, strings.Replace(df, "memory=", "before=", 1))
					return
				}
			}
		}
	})
	out.Res = res
	out.Counters["layers_compared"] += compared
	out.Counters["layers_rejected"] += rejected
	var kinds []string
	for _, l := range layers {
		kinds = append(kinds, l.kind+":"+strings.Join(l.notes, "+"))
		out.Counters["layer."+l.kind]++
	}
	out.Nontrivial = compared > 0
	out.Signature = fmt.Sprintf("%v/f%d", kinds, faultDen)
	out.Sample = map[string]any{"layers": kinds, "blob_read_fault_den": faultDen, "compared": compared}
	return out
}

func TestC05(t *testing.T) {
	hx.Main(t, hx.Prop{
		ID:   "C05",
		Rule: "each run opens 1-3 layers concurrently (one task per layer) in the memory store and in one shared bolt database: blobs built by the real builder (chunk 8/17/64, min-chunk-size streams, gzip/zstd:chunked) or hand-written spec-conforming blobs the builder never emits (implicit parents, repeated directory entries, hard links to hard links, entries without per-file digest, ./ and ../ names, empty-valued xattrs, a directory listed after its child, trailing whitespace after the TOC JSON, several chunks per stream with innerOffset); both readers are walked completely through metadata.Reader (RootID, TOCDigest, GetAttr, ForeachChild, GetChild, GetOffset, OpenFile, ChunkEntryForOffset at 0/1/mid/size-1/size/size+5, ReadAt of every probed chunk) into a canonical id-independent description and compared line by line; then the layers are closed one by one in a drawn order and the survivors re-described; blob reads fail with probability 1/25 in a third of the runs. non-trivial = at least one layer fully compared; distinct = schedule hash x layer kinds/features In a third of the layers both readers are cloned right after opening (before any call that waits for the db store's background parsing) and the clones are described at once: they must agree like the originals. A fifth of the hand-written blobs carries one entry that makes the TOC invalid (hardlink to a missing target, negative size): both stores must reject it, or both accept it.",
		Run:  run,
		PanicIsViolation: true,
		HangIsViolation:  true,
		Components: map[string]string{"metadata/memory": "real (instrumented copy)", "cmd/containerd-stargz-grpc/db on a real bolt file": "real", "estargz builder and parsers, zstdchunked": "real", "blob": "in memory behind a fault-injecting io.ReaderAt"},
		Assumptions: []string{"under an injected blob read fault the comparison of that layer is skipped (both may fail); without faults any difference is a violation"},
	})
}
