// C10 — refcounted caches finalise each value exactly once and never while it is held.
// Real: util/cacheutil TTLCache and LRUCache (instrumented copy; TTL timers fire on the
// simulated clock through the real time.AfterFunc path). Stub: none.
package c10

import (
	"fmt"
	"os"
	"path/filepath"
	"runtime"
	"runtime/debug"
	"sort"
	"strings"
	"testing"
	"time"

	"github.com/containerd/stargz-snapshotter/cache"
	"github.com/containerd/stargz-snapshotter/util/cacheutil"
	"verifsim/hx"
	"verifsim/simrt"
)

type op struct {
	client int
	kind   string // add get remove done
	key    string
	val    int  // value offered (add) or handle's value (done)
	ret    int  // value returned (add/get), -1 none
	flag   bool // added / hit / evict
	first  bool // done: first release of this handle
	lin    uint64
	at     time.Duration
}

type evict struct {
	seq uint64
	at  time.Duration
	key string
	val int
}

type handle struct {
	val      int
	key      string
	doneTTL  func(bool)
	doneLRU  func()
	released bool
}

// runUsers drives a user of the LRU cache named by the property, the descriptor cache of the
// directory chunk cache (cache/cache.go): the eviction callback of a cached *os.File is Close, so
// "runs exactly once ... nothing leaks" is observable in the descriptor table: once every reader
// and writer is closed, at most MaxCacheFds files of the cache directory are open.
func runUsers(t *testing.T, tape *simrt.Tape) *hx.Outcome {
	out := &hx.Outcome{Counters: map[string]int{}}
	fdCap := 1 + tape.Draw("cfg", 2)
	memCap := 1 + tape.Draw("cfg", 2)
	nKeys := 2 + tape.Draw("cfg", 3)
	nClients := 2 + tape.Draw("cfg", 2)
	root, cleanup := hx.RunDir()
	defer cleanup()
	// os.File finalizers would close leaked descriptors at an unseeded moment: no collection during the run
	defer runtime.GC()
	defer debug.SetGCPercent(debug.SetGCPercent(-1))
	gets := 0
	res := simrt.Run(t, tape, simrt.Options{MaxSteps: 100000, HangAfter: time.Hour}, func(s *simrt.Sim, mt *simrt.Task) {
		s.UseDisk(simrt.DiskCfg{Yield: true})
		bc, err := cache.NewDirectoryCache(filepath.Join(root, "c"), cache.DirectoryCacheConfig{MaxLRUCacheEntry: memCap, MaxCacheFds: fdCap, SyncAdd: true})
		if err != nil {
			s.Fail("harness", "NewDirectoryCache: %v", err)
			return
		}
		for k := 0; k < nKeys; k++ {
			w, err := bc.Add(fmt.Sprintf("k%d", k))
			if err != nil {
				s.Fail("harness", "Add: %v", err)
				return
			}
			w.Write([]byte(fmt.Sprintf("value-of-k%d", k)))
			w.Commit()
			w.Close()
		}
		var ts []*simrt.Task
		for c := 0; c < nClients; c++ {
			ts = append(ts, s.Go(fmt.Sprintf("client%d", c), func(t *simrt.Task) {
				dr := func(n int) int { return s.Tape.Draw(t.Label, n) }
				var open []cache.Reader
				for i := 0; i < 4+dr(8); i++ {
					if len(open) > 0 && dr(3) == 0 {
						j := dr(len(open))
						open[j].Close()
						open = append(open[:j], open[j+1:]...)
						continue
					}
					var o []cache.Option
					if dr(4) == 0 {
						o = append(o, cache.Direct())
					}
					r, err := bc.Get(fmt.Sprintf("k%d", dr(nKeys)), o...)
					if err != nil {
						continue
					}
					gets++
					b := make([]byte, 32)
					r.ReadAt(b, 0)
					open = append(open, r)
				}
				for _, r := range open {
					r.Close()
				}
			}))
		}
		mt.Join(ts...)
		if s.Failed() {
			return
		}
		n := 0
		if ents, err := os.ReadDir("/proc/self/fd"); err == nil {
			for _, e := range ents {
				if tgt, err := os.Readlink("/proc/self/fd/" + e.Name()); err == nil && strings.HasPrefix(tgt, filepath.Join(root, "c")+"/") {
					n++
				}
			}
		}
		if n > fdCap {
			s.Fail("descriptor-not-finalised", "every reader of the directory cache is closed but %d of its files are still open; the descriptor cache holds at most %d: an evicted file's eviction callback (Close) never ran", n, fdCap)
		}
		bc.Close()
	})
	out.Res = res
	out.Counters["users.gets"] += gets
	out.Nontrivial = gets > 2
	out.Signature = fmt.Sprintf("users/fd%d/mem%d/k%d/c%d", fdCap, memCap, nKeys, nClients)
	out.Sample = map[string]any{"scenario": "descriptor cache of cache/cache.go", "fd_cap": fdCap, "keys": nKeys, "clients": nClients}
	return out
}

func run(t *testing.T, tape *simrt.Tape) *hx.Outcome {
	if tape.Draw("cfg", 8) == 0 {
		return runUsers(t, tape)
	}
	isTTL := tape.Draw("cfg", 2) == 0
	nClients := 2 + tape.Draw("cfg", 3)
	nKeys := 1 + tape.Draw("cfg", 3)
	ttl := time.Duration(1+tape.Draw("cfg", 5)) * time.Second
	capacity := 1 + tape.Draw("cfg", 3)
	maxOps := 3 + tape.Draw("cfg", 10)
	var ops []op
	var evs []evict
	out := &hx.Outcome{Counters: map[string]int{}}
	res := simrt.Run(t, tape, simrt.Options{MaxSteps: 100000, HangAfter: time.Hour, NoStall: true}, func(s *simrt.Sim, mt *simrt.Task) {
		var ttlc *cacheutil.TTLCache
		var lruc *cacheutil.LRUCache
		onEv := func(key string, value any) {
			seq := s.Event("evicted %s %d", key, value.(int))
			evs = append(evs, evict{seq: seq, at: s.Now(), key: key, val: value.(int)})
		}
		if isTTL {
			ttlc = cacheutil.NewTTLCache(ttl)
			ttlc.OnEvicted = onEv
		} else {
			lruc = cacheutil.NewLRUCache(capacity)
			lruc.OnEvicted = onEv
		}
		nextVal := 0
		var ts []*simrt.Task
		for c := 0; c < nClients; c++ {
			c := c
			ts = append(ts, s.Go(fmt.Sprintf("client%d", c), func(t *simrt.Task) {
				t.RecAcq = true
				var hs []*handle
				do := func(o *op, f func()) {
					t.AcqLog = t.AcqLog[:0]
					o.at = s.Now()
					inv := s.Seq()
					f()
					if len(t.AcqLog) == 0 {
						// an operation that takes no lock has no scheduling point inside: it is atomic in this
						// schedule and takes effect where it was invoked
						o.lin = inv
						return
					}
					o.lin = t.AcqLog[0]
				}
				release := func(h *handle, ev bool) {
					o := op{client: c, kind: "done", key: h.key, val: h.val, ret: -1, flag: ev, first: !h.released}
					do(&o, func() {
						if isTTL {
							h.doneTTL(ev)
						} else {
							h.doneLRU()
						}
					})
					h.released = true
					s.Event("c%d done(%s,%d,evict=%v) lin=%d", c, h.key, h.val, ev, o.lin)
					ops = append(ops, o)
				}
				n := 1 + s.Tape.Draw(t.Label, maxOps)
				for i := 0; i < n && !s.Failed(); i++ {
					key := fmt.Sprintf("k%d", s.Tape.Draw(t.Label, nKeys))
					switch s.Tape.Draw(t.Label, 7) {
					case 0, 1: // add
						nextVal++
						v := nextVal
						o := op{client: c, kind: "add", key: key, val: v}
						h := &handle{key: key}
						do(&o, func() {
							if isTTL {
								cv, d, added := ttlc.Add(key, v)
								o.ret, o.flag, h.doneTTL = cv.(int), added, d
							} else {
								cv, d, added := lruc.Add(key, v)
								o.ret, o.flag, h.doneLRU = cv.(int), added, d
							}
						})
						h.val = o.ret
						hs = append(hs, h)
						s.Event("c%d add(%s,%d)->%d added=%v lin=%d", c, key, v, o.ret, o.flag, o.lin)
						ops = append(ops, o)
					case 2, 3: // get
						o := op{client: c, kind: "get", key: key, ret: -1}
						h := &handle{key: key}
						do(&o, func() {
							if isTTL {
								cv, d, ok := ttlc.Get(key)
								if ok {
									o.ret, h.doneTTL = cv.(int), d
								}
								o.flag = ok
							} else {
								cv, d, ok := lruc.Get(key)
								if ok {
									o.ret, h.doneLRU = cv.(int), d
								}
								o.flag = ok
							}
						})
						if o.flag {
							h.val = o.ret
							hs = append(hs, h)
						}
						s.Event("c%d get(%s)->%d hit=%v lin=%d", c, key, o.ret, o.flag, o.lin)
						ops = append(ops, o)
					case 4: // remove
						o := op{client: c, kind: "remove", key: key, ret: -1}
						do(&o, func() {
							if isTTL {
								ttlc.Remove(key)
							} else {
								lruc.Remove(key)
							}
						})
						s.Event("c%d remove(%s) lin=%d", c, key, o.lin)
						ops = append(ops, o)
					case 5: // release one of our handles (possibly again)
						if len(hs) > 0 {
							h := hs[s.Tape.Draw(t.Label, len(hs))]
							if h.released {
								out.Counters["double_release"]++
							}
							release(h, isTTL && s.Tape.Draw(t.Label, 3) == 0)
						}
					case 6: // idle so that timers can fire
						d := []time.Duration{100 * time.Millisecond, ttl / 2, ttl, ttl + 100*time.Millisecond, 2 * ttl}[s.Tape.Draw(t.Label, 5)]
						t.Sleep(d)
					}
				}
				for _, h := range hs {
					if !h.released && !s.Failed() {
						release(h, false)
					}
				}
			}))
		}
		mt.Join(ts...)
		if s.Failed() {
			return
		}
		// empty the cache, then give every timer the chance to fire
		mt.RecAcq = true
		for k := 0; k < nKeys; k++ {
			key := fmt.Sprintf("k%d", k)
			mt.AcqLog = mt.AcqLog[:0]
			o := op{client: -1, kind: "remove", key: key, ret: -1, at: s.Now()}
			if isTTL {
				ttlc.Remove(key)
			} else {
				lruc.Remove(key)
			}
			o.lin = mt.AcqLog[0]
			ops = append(ops, o)
		}
		mt.Sleep(2*ttl + time.Second)
		check(s, ops, evs, isTTL, ttl, capacity, out)
	})
	out.Res = res
	kind := "lru"
	if isTTL {
		kind = "ttl"
	}
	out.Counters["ops"] += len(ops)
	out.Counters["evictions_"+kind] += len(evs)
	// non-trivial: some value was re-added under a key while an older value of that key was still held,
	// or an eviction (expiry/capacity/evicting release) happened while a holder existed
	out.Nontrivial = out.Counters["readd_while_held"] > 0 || out.Counters["left_cache_while_held"] > 0
	out.Signature = fmt.Sprintf("%s/c%d/k%d/ttl%v/cap%d", kind, nClients, nKeys, ttl, capacity)
	var sample []string
	for i, o := range ops {
		if i >= 30 {
			break
		}
		sample = append(sample, fmt.Sprintf("%d@%v c%d %s(%s,%d)->%d/%v", o.lin, o.at, o.client, o.kind, o.key, o.val, o.ret, o.flag))
	}
	out.Sample = map[string]any{"cache": kind, "clients": nClients, "keys": nKeys, "ttl": ttl.String(), "capacity": capacity, "ops_in_call_order": sample, "evictions": len(evs)}
	return out
}

type vstate struct {
	key     string
	holders int
	inCache bool
	evicted int
	addedAt time.Duration
	// staleRisk: the value was added at the very instant at which the timer of an
	// older value of the same key fires. That timer evicts by key, so it may take
	// this value out of the cache early (an expiry; not excluded by the property).
	staleRisk bool
}

func check(s *simrt.Sim, ops []op, evs []evict, isTTL bool, ttl time.Duration, capacity int, out *hx.Outcome) {
	sort.SliceStable(ops, func(i, j int) bool { return ops[i].lin < ops[j].lin })
	vals := map[int]*vstate{}
	cur := map[string]int{}                // key -> value currently cached (model)
	oldExp := map[string][]time.Duration{} // expiry instants of every value ever cached under key
	var lru []string                       // front = most recent
	touch := func(k string) {
		for i, x := range lru {
			if x == k {
				lru = append(lru[:i], lru[i+1:]...)
				break
			}
		}
		lru = append([]string{k}, lru...)
	}
	drop := func(k string) {
		for i, x := range lru {
			if x == k {
				lru = append(lru[:i], lru[i+1:]...)
				return
			}
		}
	}
	leave := func(k string) { // the value cached under k leaves the cache
		if v, ok := cur[k]; ok {
			vals[v].inCache = false
			if vals[v].holders > 0 {
				out.Counters["left_cache_while_held"]++
			}
			delete(cur, k)
			drop(k)
		}
	}
	ei := 0
	// applyEvictsBefore checks every OnEvicted event with seq < bound against the model state.
	applyEvicts := func(bound uint64) bool {
		for ei < len(evs) && evs[ei].seq < bound {
			e := evs[ei]
			ei++
			v := vals[e.val]
			if v == nil {
				s.Fail("evicted-unknown", "OnEvicted(%s,%d) for a value never returned by Add", e.key, e.val)
				return false
			}
			v.evicted++
			if v.evicted > 1 {
				s.Fail("evicted-twice", "OnEvicted ran %d times for value %d of key %s (seq %d)", v.evicted, e.val, e.key, e.seq)
				return false
			}
			if v.holders > 0 {
				s.Fail("evicted-while-held", "OnEvicted(%s,%d) at seq %d while %d holder(s) have not released it", e.key, e.val, e.seq, v.holders)
				return false
			}
			if isTTL && v.inCache && (e.at >= v.addedAt+ttl || v.staleRisk) {
				// timer expiry: the value leaves the cache now
				leave(v.key)
			}
			if v.inCache {
				s.Fail("evicted-while-cached", "OnEvicted(%s,%d) at seq %d t=%v while the value is still in the cache (added t=%v)", e.key, e.val, e.seq, e.at, v.addedAt)
				return false
			}
		}
		return true
	}
	// expiry bookkeeping for the TTL cache (simulated time; timers fire at addedAt+ttl exactly)
	presence := func(k string, at time.Duration) (must, mustNot bool) {
		v, ok := cur[k]
		if !ok {
			return false, true
		}
		if !isTTL {
			return true, false
		}
		exp := vals[v].addedAt + ttl
		if at > exp {
			return false, true
		}
		amb := at == exp || vals[v].staleRisk
		for _, x := range oldExp[k] {
			if x == at {
				amb = true
			}
		}
		if amb {
			return false, false
		}
		return true, false
	}
	for i := range ops {
		o := &ops[i]
		if !applyEvicts(o.lin) {
			return
		}
		switch o.kind {
		case "add", "get":
			must, mustNot := presence(o.key, o.at)
			present := (o.kind == "add" && !o.flag) || (o.kind == "get" && o.flag)
			if present && mustNot {
				s.Fail("stale-hit", "%s(%s) at t=%v lin=%d returned cached value %d although the key had left the cache", o.kind, o.key, o.at, o.lin, o.ret)
				return
			}
			if !present && must {
				if o.kind == "add" {
					s.Fail("replaced-existing", "Add(%s,%d) at t=%v lin=%d reported added=true although value %d was cached under the key", o.key, o.val, o.at, o.lin, cur[o.key])
				} else {
					s.Fail("lost-entry", "Get(%s) at t=%v lin=%d missed although value %d was cached under the key and cannot have expired", o.key, o.at, o.lin, cur[o.key])
				}
				return
			}
			if !present {
				leave(o.key) // the entry (if the model still has one) had expired
			}
			if present {
				if !must && !mustNot {
					// ambiguous but observed present: fine
				}
				if o.ret != cur[o.key] {
					s.Fail("wrong-value", "%s(%s) lin=%d returned value %d, the cache holds %d under that key", o.kind, o.key, o.lin, o.ret, cur[o.key])
					return
				}
				v := vals[o.ret]
				if v.evicted > 0 {
					s.Fail("finalised-value-served", "%s(%s) lin=%d returned value %d whose eviction callback already ran", o.kind, o.key, o.lin, o.ret)
					return
				}
				v.holders++
				if !isTTL {
					touch(o.key)
				}
			} else if o.kind == "add" {
				if o.ret != o.val {
					s.Fail("wrong-value", "Add(%s,%d) reported added=true but returned %d", o.key, o.val, o.ret)
					return
				}
				// older values of this key still held?
				for _, ov := range vals {
					if ov.key == o.key && ov.holders > 0 {
						out.Counters["readd_while_held"]++
						break
					}
				}
				vals[o.val] = &vstate{key: o.key, holders: 1, inCache: true, addedAt: o.at}
				for _, x := range oldExp[o.key] {
					if x == o.at && isTTL {
						vals[o.val].staleRisk = true
						out.Counters["added_at_stale_timer_instant"]++
					}
				}
				cur[o.key] = o.val
				oldExp[o.key] = append(oldExp[o.key], o.at+ttl)
				if !isTTL {
					touch(o.key)
					if len(lru) > capacity {
						out.Counters["capacity_eviction"]++
						leave(lru[len(lru)-1])
					}
				}
			}
		case "remove":
			if isTTL {
				if _, mustNot := presence(o.key, o.at); !mustNot {
					leave(o.key)
				} else {
					leave(o.key)
				}
			} else {
				leave(o.key)
			}
		case "done":
			v := vals[o.val]
			if o.first {
				v.holders--
				if v.holders < 0 {
					s.Fail("harness", "negative holders in the model")
					return
				}
			}
			if o.flag && isTTL { // evicting release: only this very value may leave the cache
				if c, ok := cur[o.key]; ok && c == o.val {
					leave(o.key)
					out.Counters["evicting_release"]++
				}
				v.inCache = false
			}
		}
	}
	if !applyEvicts(^uint64(0)) {
		return
	}
	for id, v := range vals {
		if v.evicted != 1 {
			s.Fail("not-finalised", "value %d of key %s: eviction callback ran %d times by the end (cache emptied, every holder released, 2*ttl elapsed)", id, v.key, v.evicted)
			return
		}
	}
}

func TestC10(t *testing.T) {
	hx.Main(t, hx.Prop{
		ID:              "C10",
		Rule:            "each run draws the cache kind (TTL/LRU), 2-4 client tasks, 1-3 keys, ttl 1-5s, capacity 1-3 and up to 12 operations per client among Add(unique value)/Get/Remove/release(evict or not, repeated)/idle; timers fire on the simulated clock; every lock acquisition and timer callback is a scheduler decision. The operations are linearised by their first acquisition of the cache lock and replayed against a reference map with holder counts. non-trivial = a key was re-added while an older value of it was still held, or a value left the cache (expiry, removal, capacity, evicting release) while held; distinct = schedule hash x configuration. One run in eight instead drives a user of the LRU cache, the descriptor cache of the directory chunk cache (cache/cache.go): 2-3 clients open, read and close readers of 2-4 keys (Direct or not) against MaxCacheFds 1-2 with the garbage collector off; once every reader is closed at most MaxCacheFds files of the cache directory may be open (an evicted *os.File whose Close callback never ran is a leak) An operation that takes no lock at all has no scheduling point inside and is linearised where it was invoked.",
		Run:             run,
		HangIsViolation: true,
		Components:      map[string]string{"cacheutil.TTLCache": "real (instrumented copy)", "cacheutil.LRUCache": "real (instrumented copy)", "groupcache/lru": "real", "clock/timers": "simulated (testing/synctest), real time.AfterFunc path", "clients": "harness tasks"},
		Assumptions:     []string{"no stall injection: a TTL timer callback runs at the simulated instant addedAt+ttl; operations issued at exactly that instant are treated as ambiguous (both outcomes accepted)"},
	})
}
