// C18 — registry credentials and custom headers reach only their own image and host.
// Real: service/keychain/cri (instrumentedService), service/resolver.RegistryHostsFromConfig (with
// go-retryablehttp, net/http client incl. its redirect handling), containerd's docker authorizer,
// fs/remote resolver/fetcher (redirect, size probe, range fetch, check, 403 refresh).
// Stub: registry / mirror / CDN / token endpoint (simreg + Extra), CRI backend (in-memory).
package c18

import (
	"context"
	"encoding/base64"
	"errors"
	"fmt"
	"io"
	"net/http"
	"net/url"
	"strings"
	"testing"
	"time"

	"github.com/containerd/containerd/v2/pkg/reference"
	"github.com/containerd/stargz-snapshotter/cache"
	"github.com/containerd/stargz-snapshotter/fs/config"
	"github.com/containerd/stargz-snapshotter/fs/remote"
	crikeychain "github.com/containerd/stargz-snapshotter/service/keychain/cri"
	"github.com/containerd/stargz-snapshotter/service/resolver"
	_ "github.com/containerd/stargz-snapshotter/zzverif/common"
	digest "github.com/opencontainers/go-digest"
	ocispec "github.com/opencontainers/image-spec/specs-go/v1"
	"google.golang.org/grpc"
	runtime "k8s.io/cri-api/pkg/apis/runtime/v1"
	"verifsim/hx"
	"verifsim/simreg"
	"verifsim/simrt"
)

// ---- in-memory CRI backend -----------------------------------------------------------
type fakeCRI struct {
	s       *simrt.Sim
	failDen int
}

func (f *fakeCRI) maybeFail() error {
	t := simrt.Cur()
	t.Yield("cri.backend")
	if f.failDen > 0 && t != nil && f.s.Tape.Draw("cri:"+t.Label, f.failDen) == 0 {
		f.s.Stat("fault.cri_backend", 1)
		return errors.New("cri backend failure")
	}
	return nil
}
func (f *fakeCRI) ListImages(ctx context.Context, in *runtime.ListImagesRequest, opts ...grpc.CallOption) (*runtime.ListImagesResponse, error) {
	return &runtime.ListImagesResponse{}, f.maybeFail()
}
func (f *fakeCRI) ImageStatus(ctx context.Context, in *runtime.ImageStatusRequest, opts ...grpc.CallOption) (*runtime.ImageStatusResponse, error) {
	return &runtime.ImageStatusResponse{}, f.maybeFail()
}
func (f *fakeCRI) PullImage(ctx context.Context, in *runtime.PullImageRequest, opts ...grpc.CallOption) (*runtime.PullImageResponse, error) {
	return &runtime.PullImageResponse{ImageRef: in.GetImage().GetImage()}, f.maybeFail()
}
func (f *fakeCRI) RemoveImage(ctx context.Context, in *runtime.RemoveImageRequest, opts ...grpc.CallOption) (*runtime.RemoveImageResponse, error) {
	return &runtime.RemoveImageResponse{}, f.maybeFail()
}
func (f *fakeCRI) ImageFsInfo(ctx context.Context, in *runtime.ImageFsInfoRequest, opts ...grpc.CallOption) (*runtime.ImageFsInfoResponse, error) {
	return &runtime.ImageFsInfoResponse{}, f.maybeFail()
}

// ---- the model of what the keychain may offer -----------------------------------------
type pull struct {
	id      int
	ref     string // normalised reference
	user    string
	secret  string
	server  string // host named by the request's server address ("" = none)
	form    string
	seq     uint64 // when it was recorded (PullImage invoked)
	derived []string
}

type change struct {
	seq  uint64 // invoked
	end  uint64 // returned (0 = still in progress)
	ref  string
	pull *pull // nil = removed / none
}

type image struct {
	name    string // as given to CRI
	ref     string // normalised (reference.Spec string)
	host    string // registry host contacted for it
	repo    string
	blob    []byte
	dgst    digest.Digest
	srvAddr string // server address that names this image's registry
}

func run(t *testing.T, tape *simrt.Tape) *hx.Outcome {
	out := &hx.Outcome{Counters: map[string]int{}}
	c := func(n int) int { return tape.Draw("cfg", n) }
	authMode := []string{"none", "basic", "bearer"}[c(3)]
	redirect := c(2) == 0
	expireDen := []int{0, 3}[c(2)]
	withMirror := c(2) == 0
	hostShape := c(4)
	secondHop := c(2) == 0 // the CDN redirects once more to a URL on its own host
	// header names as an operator may spell them in the config file: canonical or not
	regKey := []string{"X-Reg-Key", "x-reg-key"}[c(2)]
	mirrorKey := []string{"X-Mirror-Key", "x-mirror-KEY"}[c(2)]
	nLayerTasks := 1 + c(3)
	criFailDen := []int{0, 5}[c(2)]
	hdrReg := fmt.Sprintf("HDR-reg-%x", tape.Seed&0xffffff)
	hdrMirror := fmt.Sprintf("HDR-mirror-%x", tape.Seed&0xffffff)
	images := []*image{
		{name: "reg.example/repo/a:1", host: "reg.example", repo: "repo/a", srvAddr: "https://reg.example"},
		{name: "reg.example/repo/b:1", host: "reg.example", repo: "repo/b", srvAddr: "reg.example"},
		{name: "reg.example/repo/a:2", host: "reg.example", repo: "repo/a", srvAddr: "https://reg.example"}, // same repository, other reference
		{name: "docker.io/library/c:1", host: "registry-1.docker.io", repo: "library/c", srvAddr: "https://index.docker.io/v1/"},
	}
	for i, im := range images {
		spec, err := reference.Parse(im.name)
		if err != nil {
			out.InfraErr = err.Error()
			return out
		}
		im.ref = spec.String()
		im.blob = make([]byte, 300+i)
		for j := range im.blob {
			im.blob[j] = byte(i*31 + j)
		}
		im.dgst = digest.FromBytes(im.blob)
	}
	var pulls []*pull
	var changes []change
	var leaks int
	requests, withCreds, cdnRequests := 0, 0, 0
	res := simrt.Run(t, tape, simrt.Options{MaxSteps: 400000, HangAfter: 2 * time.Hour}, func(s *simrt.Sim, mt *simrt.Task) {
		reg := simreg.New(s, simreg.Config{Host: "reg.example", CDNHost: "cdn.example", AltHosts: []string{"registry-1.docker.io", "mirror.example"},
			Base: simreg.Multipart, Redirect: redirect, CDNSecondHop: redirect && secondHop, ExpireDen: expireDen, HeadRefused: s.Tape.Draw("cfg", 2) == 0})
		for _, im := range images {
			reg.Blobs[im.dgst.String()] = im.blob
		}
		resolver.VerifTransport = reg
		// possiblyLatest: at instant q pull p may still be what the keychain holds for its reference: it had been
		// recorded (its PullImage was invoked) and no superseding PullImage/RemoveImage had RETURNED before q
		possiblyLatest := func(p *pull, q uint64) bool {
			if p.seq > q {
				return false
			}
			for _, ch := range changes {
				if ch.ref == p.ref && ch.seq > p.seq && ch.pull != p && ch.end != 0 && ch.end < q {
					return false
				}
			}
			for _, ch := range changes {
				if ch.pull == p {
					return true // its PullImage reached the keychain
				}
			}
			return false
		}
		latest := func(ref string, q uint64) *pull { // compatibility helper for the checks below
			for i := len(pulls) - 1; i >= 0; i-- {
				if pulls[i].ref == ref && possiblyLatest(pulls[i], q) {
					return pulls[i]
				}
			}
			return nil
		}
		_ = latest
		opStart := map[string]uint64{}  // layer task -> seq at which its current operation started
		opRef := map[string]string{}    // layer task -> image ref it works for
		// every request is scanned for secrets, derived tokens and configured header values
		tokenN := 0
		reg.Hook = func(rec *simreg.Request, req *http.Request) {
			requests++
			hay := req.URL.String() + "\n"
			for k, vs := range req.Header {
				for _, v := range vs {
					hay += k + ": " + v + "\n"
					if strings.HasPrefix(v, "Basic ") {
						if d, err := base64.StdEncoding.DecodeString(strings.TrimPrefix(v, "Basic ")); err == nil {
							hay += string(d) + "\n"
						}
					}
				}
			}
			if req.Body != nil && req.Method == "POST" {
				b, _ := io.ReadAll(req.Body)
				req.Body = io.NopCloser(strings.NewReader(string(b)))
				hay += string(b) + "\n"
				if u, err := url.ParseQuery(string(b)); err == nil {
					hay += u.Get("refresh_token") + "\n" + u.Get("password") + "\n"
				}
			}
			host := req.URL.Host
			if host == "cdn.example" {
				cdnRequests++
			}
			// which registry host were the credentials meant for? (token realm requests name it as service)
			credHost := host
			if host == "auth.example" {
				credHost = req.URL.Query().Get("service")
				if req.Method == "POST" {
					b, _ := io.ReadAll(req.Body)
					req.Body = io.NopCloser(strings.NewReader(string(b)))
					if u, err := url.ParseQuery(string(b)); err == nil && u.Get("service") != "" {
						credHost = u.Get("service")
					}
				}
			}
			for _, p := range pulls {
				found := strings.Contains(hay, p.secret)
				for _, dtok := range p.derived {
					if strings.Contains(hay, dtok) {
						found = true
					}
				}
				if !found {
					continue
				}
				withCreds++
				task := rec.Task
				if i := strings.Index(task, "/"); i >= 0 {
					task = task[:i]
				}
				fail := func(why string) {
					leaks++
					s.Fail("credential-leak", "request %s %s%s by %s carries the credential of pull #%d (ref %s, form %s, server address host %q): %s", req.Method, host, req.URL.Path, rec.Task, p.id, p.ref, p.form, p.server, why)
				}
				if host == "cdn.example" {
					fail("credentials must never reach the redirect target")
					return
				}
				if host != "reg.example" && host != "registry-1.docker.io" && host != "mirror.example" && host != "auth.example" {
					fail("unknown host")
					return
				}
				if p.server != "" && credHost != p.server && !(p.server == "index.docker.io" && (credHost == "registry-1.docker.io" || credHost == "docker.io")) {
					fail(fmt.Sprintf("the pull request named server address host %q but the host being contacted is %q", p.server, credHost))
					return
				}
				wantRef := opRef[task]
				if wantRef != p.ref {
					fail(fmt.Sprintf("the request is made for image %q, the credential was captured for %q", wantRef, p.ref))
					return
				}
				// the pull must have been the latest one for its reference at some instant of the operation
				ok := false
				for q := opStart[task]; q <= rec.Seq; q++ {
					if possiblyLatest(p, q) {
						ok = true
						break
					}
				}
				if !ok {
					fail("at no instant of the operation was that pull the most recent one for the reference (superseded or image removed)")
					return
				}
			}
			for hv, hh := range map[string]string{hdrReg: "reg.example", hdrMirror: "mirror.example"} {
				if strings.Contains(hay, hv) && host != hh {
					leaks++
					s.Fail("header-leak", "request %s %s%s (shape of the exchange: redirect=%v) carries the header configured for host %s", req.Method, host, req.URL.Path, redirect, hh)
					return
				}
			}
		}
		// auth challenges and the token endpoint
		reg.Extra = func(rec *simreg.Request, req *http.Request) *http.Response {
			mk := func(code int, h http.Header, body string) *http.Response {
				if h == nil {
					h = http.Header{}
				}
				return &http.Response{StatusCode: code, Status: fmt.Sprintf("%d %s", code, http.StatusText(code)), Header: h, Body: io.NopCloser(strings.NewReader(body)),
					ContentLength: int64(len(body)), Request: req, Proto: "HTTP/1.1", ProtoMajor: 1, ProtoMinor: 1}
			}
			host := req.URL.Host
			if host == "auth.example" {
				tokenN++
				tok := fmt.Sprintf("tok-%d-%x", tokenN, tape.Seed&0xffff)
				// a token is derived from whatever credential came along
				hay := req.Header.Get("Authorization")
				if strings.HasPrefix(hay, "Basic ") {
					if d, err := base64.StdEncoding.DecodeString(strings.TrimPrefix(hay, "Basic ")); err == nil {
						hay = string(d)
					}
				}
				if req.Body != nil {
					b, _ := io.ReadAll(req.Body)
					hay += string(b)
					if u, err := url.ParseQuery(string(b)); err == nil {
						hay += u.Get("refresh_token") + u.Get("password")
					}
				}
				for _, p := range pulls {
					if strings.Contains(hay, p.secret) {
						p.derived = append(p.derived, tok)
					}
				}
				h := http.Header{}
				h.Set("Content-Type", "application/json")
				return mk(200, h, fmt.Sprintf(`{"token":%q,"access_token":%q,"expires_in":300}`, tok, tok))
			}
			if authMode != "none" && (host == "reg.example" || host == "registry-1.docker.io" || host == "mirror.example") && req.Header.Get("Authorization") == "" {
				h := http.Header{}
				if authMode == "basic" {
					h.Set("WWW-Authenticate", `Basic realm="`+host+`"`)
				} else {
					scope := "repository:" + strings.TrimSuffix(strings.TrimPrefix(strings.SplitN(req.URL.Path, "/blobs/", 2)[0], "/v2/"), "/") + ":pull"
					h.Set("WWW-Authenticate", fmt.Sprintf(`Bearer realm="https://auth.example/token",service=%q,scope=%q`, host, scope))
				}
				return mk(401, h, "")
			}
			return nil
		}
		// the keychain and its CRI connection
		backend := &fakeCRI{s: s, failDen: criFailDen}
		connectFails := s.Tape.Draw("cfg", 3)
		creds, server := crikeychain.NewCRIKeychain(context.Background(), func() (runtime.ImageServiceClient, error) {
			if connectFails > 0 {
				connectFails--
				return nil, errors.New("CRI not up yet")
			}
			return backend, nil
		})
		rcfg := resolver.Config{RequestTimeoutSec: 20, Host: map[string]resolver.HostConfig{}}
		if withMirror {
			// the host tables come in every shape: a mirror with or without its own header table
			// before an origin entry with or without one (an origin that is not listed is appended
			// by the resolver, without headers)
			var ms []resolver.MirrorConfig
			switch hostShape {
			case 0:
				ms = []resolver.MirrorConfig{{Host: "mirror.example", Header: map[string]any{mirrorKey: hdrMirror}}, {Host: "reg.example", Header: map[string]any{regKey: []any{hdrReg}}}}
			case 1:
				ms = []resolver.MirrorConfig{{Host: "mirror.example", Header: map[string]any{mirrorKey: hdrMirror}}}
			case 2:
				ms = []resolver.MirrorConfig{{Host: "mirror.example", Header: map[string]any{mirrorKey: hdrMirror}}, {Host: "reg.example"}}
			default:
				ms = []resolver.MirrorConfig{{Host: "mirror.example"}, {Host: "reg.example", Header: map[string]any{regKey: hdrReg}}}
			}
			rcfg.Host["reg.example"] = resolver.HostConfig{Mirrors: ms}
		} else {
			rcfg.Host["reg.example"] = resolver.HostConfig{Mirrors: []resolver.MirrorConfig{{Host: "reg.example", Header: map[string]any{regKey: hdrReg}}}}
		}
		hosts := resolver.RegistryHostsFromConfig(rcfg, creds)
		ctx := context.Background()
		var ts []*simrt.Task
		// CRI client: pull / remove in any order with every auth form
		ts = append(ts, s.Go("cri", func(t *simrt.Task) {
			dr := func(n int) int { return s.Tape.Draw(t.Label, n) }
			for i := 0; i < 2+dr(8) && !s.Failed(); i++ {
				im := images[dr(len(images))]
				if dr(4) == 0 {
					seq := s.Event("cri RemoveImage %s", im.ref)
					changes = append(changes, change{seq: seq, ref: im.ref})
					ci := len(changes) - 1
					_, err := server.RemoveImage(ctx, &runtime.RemoveImageRequest{Image: &runtime.ImageSpec{Image: im.name}})
					if err != nil && strings.Contains(err.Error(), "not initialized") {
						changes[ci].ref = "" // refused before anything was touched
					}
					changes[ci].end = s.Seq()
					t.Sleep(time.Duration(dr(3)) * time.Second)
					continue
				}
				p := &pull{id: len(pulls) + 1, ref: im.ref, user: fmt.Sprintf("user%d", len(pulls)+1), secret: fmt.Sprintf("S%d-%x", len(pulls)+1, simrt.Mix(tape.Seed, uint64(len(pulls)))&0xffffffffff)}
				auth := &runtime.AuthConfig{}
				switch dr(5) {
				case 0:
					auth.Username, auth.Password, p.form = p.user, p.secret, "user/password"
				case 1:
					auth.IdentityToken, p.form = p.secret, "identity-token"
				case 2:
					auth.Auth, p.form = base64.StdEncoding.EncodeToString([]byte(p.user+":"+p.secret)), "base64-auth"
				case 3:
					p.form = "empty-auth" // an AuthConfig without credentials
				default:
					p.form = "anonymous" // no AuthConfig at all (a pod without pull secret): it still is the most recent pull of the reference
				}
				switch dr(4) {
				case 0: // no server address
				case 1: // the image's own registry
					auth.ServerAddress = im.srvAddr
				case 2: // another registry
					auth.ServerAddress = "https://other.example"
				default:
					auth.ServerAddress = "https://mirror.example"
				}
				if auth.ServerAddress != "" {
					if u, err := url.Parse(auth.ServerAddress); err == nil {
						p.server = u.Host
						if u.Host == "" {
							p.server = "\x00unparsable:" + auth.ServerAddress // named something that is not a URL host: matches no host
						}
					}
				}
				pulls = append(pulls, p)
				p.seq = s.Event("cri PullImage %s pull#%d form=%s server=%q", im.ref, p.id, p.form, auth.ServerAddress)
				changes = append(changes, change{seq: p.seq, ref: im.ref, pull: p})
				ci := len(changes) - 1
				if p.form == "anonymous" {
					auth = nil
				}
				_, err := server.PullImage(ctx, &runtime.PullImageRequest{Image: &runtime.ImageSpec{Image: im.name}, Auth: auth})
				if err != nil && strings.Contains(err.Error(), "not initialized") {
					changes[ci].ref, changes[ci].pull = "", nil // refused before anything was recorded
				}
				changes[ci].end = s.Seq()
				t.Sleep(time.Duration(dr(3)) * time.Second)
			}
		}))
		// direct credential queries
		ts = append(ts, s.Go("query", func(t *simrt.Task) {
			dr := func(n int) int { return s.Tape.Draw(t.Label, n) }
			for i := 0; i < 3+dr(8) && !s.Failed(); i++ {
				im := images[dr(len(images))]
				host := []string{"reg.example", "mirror.example", "registry-1.docker.io", "docker.io", "other.example", "cdn.example"}[dr(6)]
				spec, _ := reference.Parse(im.name)
				before := s.Seq()
				user, secret, err := creds(host, spec)
				after := s.Seq()
				if err != nil {
					continue
				}
				if user == "" && secret == "" {
					t.Sleep(time.Duration(dr(2000)) * time.Millisecond)
					continue
				}
				var p *pull
				for _, x := range pulls {
					if x.secret == secret {
						p = x
					}
				}
				switch {
				case p == nil:
					s.Fail("credential-leak", "credentials(%s, %s) returned a secret no pull request supplied", host, im.ref)
				case p.ref != im.ref:
					s.Fail("credential-leak", "credentials(%s, %s) returned the credential captured for %s", host, im.ref, p.ref)
				case p.server != "" && p.server != host && !(p.server == "index.docker.io" && (host == "registry-1.docker.io" || host == "docker.io")):
					s.Fail("credential-leak", "credentials(%s, %s) returned the credential of pull #%d although that request named server address host %q", host, im.ref, p.id, p.server)
				default:
					ok := false
					for q := before; q <= after; q++ {
						if possiblyLatest(p, q) {
							ok = true
						}
					}
					if !ok {
						s.Fail("credential-leak", "credentials(%s, %s) returned the credential of pull #%d which is not the most recent pull of that reference (or the image was removed)", host, im.ref, p.id)
					}
				}
				t.Sleep(time.Duration(dr(2000)) * time.Millisecond)
			}
		}))
		// layer tasks: resolve, read, check, refresh blobs of their image with those hosts
		for k := 0; k < nLayerTasks; k++ {
			k := k
			ts = append(ts, s.Go(fmt.Sprintf("layer%d", k), func(t *simrt.Task) {
				dr := func(n int) int { return s.Tape.Draw(t.Label, n) }
				for round := 0; round < 1+dr(3) && !s.Failed(); round++ {
					im := images[dr(len(images))]
					opRef[t.Label] = im.ref
					opStart[t.Label] = s.Seq()
					spec, _ := reference.Parse(im.name)
					rs := remote.NewResolver(config.BlobConfig{ChunkSize: 64, CheckAlways: true, FetchTimeoutSec: 20, MaxRetries: 1, MinWaitMSec: 10, MaxWaitMSec: 100}, nil)
					desc := ocispec.Descriptor{Digest: im.dgst, Size: int64(len(im.blob))}
					b, err := rs.Resolve(ctx, hosts, spec, desc, cache.NewMemoryCache())
					s.Event("%s resolve %s ok=%v", t.Label, im.ref, err == nil)
					if err != nil {
						t.Sleep(time.Second)
						continue
					}
					for o := 0; o < 1+dr(5) && !s.Failed(); o++ {
						// (the fetcher keeps the authorizer it was resolved with: credentials offered at resolve
						// time may be used for the lifetime of the blob)
						switch dr(4) {
						case 0:
							b.Check()
						case 1:
							b.Refresh(ctx, hosts, spec, desc)
						default:
							p := make([]byte, 1+dr(100))
							b.ReadAt(p, int64(dr(len(im.blob))))
						}
						if dr(3) == 0 {
							t.Sleep(time.Duration(dr(3000)) * time.Millisecond)
						}
					}
					b.Close()
				}
			}))
		}
		mt.Join(ts...)
	})
	out.Res = res
	out.Counters["http_requests"] += requests
	out.Counters["requests_with_credentials"] += withCreds
	out.Counters["cdn_requests"] += cdnRequests
	out.Counters["pulls"] += len(pulls)
	out.Counters["auth."+authMode]++
	out.Nontrivial = withCreds > 0 || (cdnRequests > 0 && requests > 4)
	out.Signature = fmt.Sprintf("%s/r%v/x%d/m%v/t%d/p%d", authMode, redirect, expireDen, withMirror, nLayerTasks, len(pulls))
	out.Sample = map[string]any{"auth": authMode, "redirect": redirect, "expire_den": expireDen, "mirror": withMirror, "layer_tasks": nLayerTasks, "pulls": len(pulls), "http_requests": requests,
		"requests_with_credentials": withCreds, "cdn_requests": cdnRequests}
	return out
}

func TestC18(t *testing.T) {
	hx.Main(t, hx.Prop{
		ID:   "C18",
		Rule: "each run draws the registry's auth mode (none / Basic challenge / Bearer challenge with a token endpoint), redirect to a CDN (with URLs expiring with 403), HEAD refusal, a mirror with its own configured header, 1-3 layer tasks and a CRI backend failure rate; a CRI client issues 2-9 PullImage / RemoveImage requests over four images (two references of one repository, another repository of the same registry, and a docker.io alias) with every auth form (user/password, identity token, base64 auth) and server address (none, the image's own registry, another registry, the mirror); a query task asks the keychain directly for (host, reference) pairs; layer tasks resolve, read, check and refresh blobs of their image through service/resolver.RegistryHostsFromConfig (real go-retryablehttp, net/http client and docker authorizer over the simulated transport). Secrets and header values are unique strings; EVERY request seen by any simulated host is scanned (URL, headers, decoded Basic auth, form bodies; tokens issued by the token endpoint are derived secrets): a credential may appear only in requests made for the image reference it was captured for, to the host its server address names (if any), while it is the most recent pull of that reference and the image is not removed, and never at the CDN; a configured header only at its own host. non-trivial = a request carried a credential, or the CDN was reached; distinct = schedule hash x configuration",
		Run:  run,
		PanicIsViolation: true,
		HangIsViolation:  true,
		Components: map[string]string{"service/keychain/cri": "real (instrumented copy)", "service/resolver.RegistryHostsFromConfig, go-retryablehttp, net/http client, containerd docker authorizer": "real (innermost transport swapped by a seam)", "fs/remote resolver/fetcher": "real", "registry, mirror, CDN, token endpoint": "stub (simreg)", "CRI backend": "stub"},
		Assumptions: []string{"the property constrains what the keychain OFFERS; a blob keeps the authorizer it was resolved with, so a credential offered while resolving may appear in that blob's requests until the blob is closed: 'most recent / not removed' is judged over the interval from the blob's resolution to the request, and a superseding PullImage/RemoveImage counts from its return"},
	})
}
