// C12 — a mounted layer stays usable; a released layer gives back all its resources.
// Real: layer.Resolver with both TTL caches, per-name resolve lock, layer/blob refcounting,
// remote blob (Check/Refresh), reader, chunk caches, both metadata stores.
// Stub: registry (honest bytes; connectivity loss and recovery, failures during resolution).
package c12

import (
	"archive/tar"
	"bytes"
	"context"
	"fmt"
	"io"
	"os"
	"path/filepath"
	"runtime"
	"sort"
	"strings"
	"testing"
	"time"

	"github.com/containerd/containerd/v2/pkg/reference"
	dbmetadata "github.com/containerd/stargz-snapshotter/cmd/containerd-stargz-grpc/db"
	"github.com/containerd/stargz-snapshotter/fs/config"
	"github.com/containerd/stargz-snapshotter/fs/layer"
	"github.com/containerd/stargz-snapshotter/metadata"
	memorymetadata "github.com/containerd/stargz-snapshotter/metadata/memory"
	"github.com/containerd/stargz-snapshotter/task"
	"github.com/containerd/stargz-snapshotter/zzverif/common"
	ocispec "github.com/opencontainers/image-spec/specs-go/v1"
	bolt "go.etcd.io/bbolt"
	"verifsim/hx"
	"verifsim/simreg"
	"verifsim/simrt"
)

func countFDs() int {
	return len(listFDs())
}

func listFDs() []string {
	ents, err := os.ReadDir("/proc/self/fd")
	if err != nil {
		return nil
	}
	var o []string
	for _, e := range ents {
		tgt, err := os.Readlink("/proc/self/fd/" + e.Name())
		if err != nil {
			continue // the descriptor of the directory listing itself
		}
		o = append(o, tgt)
	}
	sort.Strings(o)
	return o
}

func filesUnder(dir string) []string {
	var out []string
	filepath.Walk(dir, func(p string, fi os.FileInfo, err error) error {
		if err == nil && !fi.IsDir() {
			out = append(out, strings.TrimPrefix(p, dir))
		}
		return nil
	})
	return out
}

type resolveRec struct {
	layer    int
	inv, ret uint64
	retAt    time.Duration
	invAt    time.Duration
	evict    uint64 // seq at which this holder released with Close (evicting); 0 = Done or still held
	inst     any
	ok       bool
}

func run(t *testing.T, tape *simrt.Tape) *hx.Outcome {
	if tape.Draw("cfg.campaign", 4) == 0 { // own stream: older tapes replay unchanged
		return runDaemon(t, tape)
	}
	out := &hx.Outcome{Counters: map[string]int{}}
	d := func(n int) int { return tape.Draw("gen", n) }
	nLayers := 1 + d(3)
	cs := []int{8, 17, 64}[d(3)]
	type lay struct {
		built *common.Built
		files map[string][]byte
		names []string
	}
	var layers []lay
	for i := 0; i < nLayers; i++ {
		spec := common.GenTar(d, tape.Seed+uint64(i)*104729, common.GenOpts{ChunkSize: cs, MaxEntries: 6, OddNames: d(3) == 0})
		tb := spec.Bytes()
		m, err := common.Model(tb)
		if err != nil {
			out.InfraErr = "model: " + err.Error()
			return out
		}
		b, err := common.BuildBlob(tb, common.BuildCfg{ChunkSize: cs, Compression: d(2), Workers: 1})
		if err != nil {
			out.InfraErr = "build: " + err.Error()
			return out
		}
		L := lay{built: b, files: map[string][]byte{}}
		m.Walk(func(n *common.MNode) {
			if n.Type == tar.TypeReg && len(n.Data) > 0 {
				L.files[n.Path] = n.Data
			}
		})
		for p := range L.files {
			L.names = append(L.names, p)
		}
		sort.Strings(L.names)
		layers = append(layers, L)
	}
	c := func(n int) int { return tape.Draw("cfg", n) }
	useDB := c(2) == 1
	calm := c(2) == 0
	ttl := 2 + c(4)
	fcfg := config.Config{
		HTTPCacheType: []string{"memory", ""}[c(2)], FSCacheType: []string{"memory", ""}[c(2)],
		ResolveResultEntryTTLSec: ttl, NoPrometheus: true,
		BlobConfig:           config.BlobConfig{ChunkSize: []int64{16, 64, 50000}[c(3)], FetchTimeoutSec: 30, MaxRetries: 1, MinWaitMSec: 10, MaxWaitMSec: 100, ValidInterval: int64([]int{1, 3, 600}[c(3)])},
		DirectoryCacheConfig: config.DirectoryCacheConfig{MaxLRUCacheEntry: 1 + c(3), MaxCacheFds: 1 + c(3), SyncAdd: c(2) == 1, Direct: c(3) == 0},
	}
	rcfg := simreg.Config{Base: simreg.Personality(c(int(simreg.NumPersonalities))), Redirect: c(3) == 0}
	if !calm {
		rcfg.FaultDen = []int{5, 15}[c(2)]
		rcfg.LatencyDen = []int{0, 4}[c(2)]
		rcfg.StallOK = c(2) == 0
		if rcfg.Redirect {
			rcfg.ExpireDen = []int{0, 4}[c(2)]
		}
	}
	nHolders := 2 + c(3)
	root, cleanup := hx.RunDir()
	defer cleanup()
	var bdb *bolt.DB
	store := metadata.Store(memorymetadata.NewReader)
	if useDB {
		var err error
		bdb, err = bolt.Open(filepath.Join(root, "metadata.db"), 0600, &bolt.Options{NoSync: true, InitialMmapSize: 64 << 20})
		if err != nil {
			out.InfraErr = "bolt: " + err.Error()
			return out
		}
		defer bdb.Close()
		store = func(sr *io.SectionReader, opts ...metadata.Option) (metadata.Reader, error) {
			return dbmetadata.NewReader(bdb, sr, opts...)
		}
	}
	fdBase := countFDs()
	reads, readErrs, resolves, expired := 0, 0, 0, 0
	var recs []*resolveRec
	res := simrt.Run(t, tape, simrt.Options{MaxSteps: 600000, HangAfter: 3 * time.Hour}, func(s *simrt.Sim, mt *simrt.Task) {
		s.Procs = 1
		s.UseDisk(simrt.DiskCfg{Yield: true})
		reg := simreg.New(s, rcfg)
		tm := task.NewBackgroundTaskManager(2, time.Second)
		rroot := filepath.Join(root, "r")
		rs, err := layer.NewResolver(rroot, tm, fcfg, nil, store, layer.OverlayOpaqueAll, nil)
		if err != nil {
			s.Fail("harness", "NewResolver: %v", err)
			return
		}
		refspec, _ := reference.Parse("reg.example/repo/img:latest")
		hosts := common.Hosts(reg, 20*time.Second, nil, s.Tape.Draw("cfg", 2) == 1)
		descs := make([]ocispec.Descriptor, nLayers)
		for i, L := range layers {
			reg.Blobs[L.built.Digest.String()] = L.built.Blob
			descs[i] = ocispec.Descriptor{Digest: L.built.Digest, Size: int64(len(L.built.Blob)), MediaType: ocispec.MediaTypeImageLayerGzip}
		}
		outage := false
		var ts, bgs []*simrt.Task
		bgN := 0
		for h := 0; h < nHolders; h++ {
			h := h
			ts = append(ts, s.Go(fmt.Sprintf("holder%d", h), func(t *simrt.Task) {
				dr := func(n int) int { return s.Tape.Draw(t.Label, n) }
				rounds := 1 + dr(3)
				for r := 0; r < rounds && !s.Failed(); r++ {
					li := dr(nLayers)
					L := layers[li]
					rec := &resolveRec{layer: li, inv: s.Seq(), invAt: s.Now()}
					l, err := rs.Resolve(context.Background(), hosts, refspec, descs[li])
					rec.ret = s.Seq()
					rec.retAt = s.Now()
					resolves++
					if err != nil {
						s.Event("h%d resolve l%d failed", h, li)
						if calm && !outage {
							s.Fail("resolve-error", "Resolve failed against a calm reachable registry: %v", err)
							return
						}
						continue
					}
					rec.ok, rec.inst = true, layer.VerifInstance(l)
					recs = append(recs, rec)
					s.Event("h%d resolved l%d", h, li)
					if err := l.Verify(L.built.TOCDigest); err != nil {
						if strings.Contains(err.Error(), "closed") {
							s.Fail("closed-under-holder", "Verify on a layer this holder has not released failed with %q", err)
							return
						}
						l.Done()
						continue
					}
					rn, err := l.RootNode(0)
					if err != nil {
						s.Fail("closed-under-holder", "RootNode on a layer this holder has not released failed: %v", err)
						return
					}
					tree := common.NewTree(rn)
					// like fs.Mount: prefetch and background fetch of the layer may run while it is used and
					// still be in flight (a chunk being written to the cache) when it is released
					if bs := "bg:" + t.Label; s.Tape.Draw(bs, 2) == 1 {
						which := s.Tape.Draw(bs, 3)
						bgN++
						if which != 1 {
							bgs = append(bgs, s.Go(fmt.Sprintf("h%d-prefetch%d", h, bgN), func(*simrt.Task) { l.Prefetch(int64(len(L.built.Blob))) }))
						}
						if which != 0 {
							bgs = append(bgs, s.Go(fmt.Sprintf("h%d-bgfetch%d", h, bgN), func(*simrt.Task) { l.BackgroundFetch() }))
						}
					}
					ops := 1 + dr(5)
					for o := 0; o < ops && !s.Failed(); o++ {
						switch k := dr(8); {
						case k < 4 && len(L.names) > 0: // read a file through the node
							p := L.names[dr(len(L.names))]
							nd, _, errno := tree.Lookup(p)
							if errno != 0 {
								s.Fail("lookup-failed", "Lookup(%q) on a held layer failed: %v", p, errno)
								return
							}
							fh, errno := tree.Open(nd)
							if errno == 0 {
								var b []byte
								b, errno, _ = tree.Read(fh, 0, len(L.files[p])+1)
								if errno == 0 && !bytes.Equal(b, L.files[p]) {
									s.Fail("wrong-bytes", "a held layer returned wrong bytes for %q", p)
									return
								}
								tree.Release(fh)
							}
							reads++
							if errno != 0 {
								readErrs++
								st, _ := tree.StateJSON()
								if strings.Contains(st, "already closed") {
									s.Fail("closed-under-holder", "holder %d has not released layer %d, yet a read failed because something is already closed: %s", h, li, st)
									return
								}
								if calm && !outage {
									s.Fail("read-error", "read of %q on a held layer failed with the registry calm and reachable: %s", p, st)
									return
								}
							}
						case k == 4: // blob-level read
							p := make([]byte, 1+dr(64))
							_, err := l.ReadAt(p, int64(dr(len(L.built.Blob))))
							if err != nil && strings.Contains(err.Error(), "already closed") {
								s.Fail("closed-under-holder", "holder %d has not released layer %d, yet ReadAt failed with %q", h, li, err)
								return
							}
						case k == 5: // idle: TTLs expire, connectivity checks become due
							t.Sleep(time.Duration(1+dr(2*ttl)) * time.Second)
							expired++
						case k == 6:
							err := l.Check()
							if err != nil && strings.Contains(err.Error(), "already closed") {
								s.Fail("closed-under-holder", "Check on a held layer: %v", err)
								return
							}
						default:
							err := l.Refresh(context.Background(), hosts, refspec, descs[li])
							if err != nil && strings.Contains(err.Error(), "already closed") {
								s.Fail("closed-under-holder", "Refresh on a held layer: %v", err)
								return
							}
						}
					}
					if dr(2) == 0 {
						l.Done()
					} else {
						rec.evict = s.Seq()
						l.Close()
					}
					s.Event("h%d released l%d", h, li)
				}
			}))
		}
		// connectivity loss and recovery while holders work
		if !calm {
			ts = append(ts, s.Go("network", func(t *simrt.Task) {
				for i := 0; i < 1+s.Tape.Draw(t.Label, 3); i++ {
					t.Sleep(time.Duration(1+s.Tape.Draw(t.Label, 6)) * time.Second)
					outage = true
					reg.Down = true
					s.Event("registry down")
					t.Sleep(time.Duration(1+s.Tape.Draw(t.Label, 5)) * time.Second)
					reg.Down = false
					s.Event("registry up")
				}
			}))
		}
		mt.Join(ts...)
		mt.Join(bgs...)
		if s.Failed() {
			return
		}
		// (b) concurrent requests for one layer share a single resolved instance (calm runs only:
		// a failing connectivity check legitimately replaces the instance)
		if calm {
			evictedAt := func(inst any) uint64 { // first evicting release of that instance by any holder
				var m uint64
				for _, r := range recs {
					if r.inst == inst && r.evict != 0 && (m == 0 || r.evict < m) {
						m = r.evict
					}
				}
				return m
			}
			for _, a := range recs {
				for _, b := range recs {
					// a returned first; b was already waiting or started before a returned
					if a == b || a.layer != b.layer || !(a.ret < b.ret && b.inv < a.ret) || a.inst == b.inst {
						continue
					}
					if ev := evictedAt(a.inst); ev != 0 && ev < b.ret {
						continue // a's instance was evicted by a Close before b looked
					}
					if b.retAt-a.retAt >= time.Duration(ttl)*time.Second {
						continue // a's instance may have expired
					}
					// the cache entry expires ttl after the instance was ADDED, which is no earlier than the
					// invocation of the first Resolve that returned it (a itself may have been a cache hit)
					born := a.invAt
					for _, r := range recs {
						if r.inst == a.inst && r.invAt < born {
							born = r.invAt
						}
					}
					if b.retAt-born >= time.Duration(ttl)*time.Second {
						continue
					}
					s.Fail("not-shared", "two overlapping Resolve calls for layer %d (seq %d-%d and %d-%d) returned different instances although the first instance was neither evicted nor expired", a.layer, a.inv, a.ret, b.inv, b.ret)
					return
				}
			}
		}
		// (c) everything released: after expiry nothing of the layers may be left
		reg.Down, reg.NoFaults = false, true
		mt.Sleep(time.Duration(2*ttl+2) * time.Second)
		for _, sub := range []string{"fscache", "httpcache"} {
			if fs := filesUnder(filepath.Join(rroot, sub)); len(fs) > 0 {
				s.Fail("cache-left-behind", "all holders released and %ds (2x TTL) passed, but %s still holds %d file(s)", 2*ttl+2, sub, len(fs))
				return
			}
			// ... and the per-layer cache directories themselves are gone
			if ents, _ := os.ReadDir(filepath.Join(rroot, sub)); len(ents) > 0 {
				if os.Getenv("VERIF_DEBUG_LS") != "" {
					filepath.Walk(filepath.Join(rroot, sub), func(p string, fi os.FileInfo, err error) error {
						fmt.Fprintln(os.Stderr, "LEFT:", strings.TrimPrefix(p, rroot), fi.IsDir())
						return nil
					})
				}
				s.Fail("cache-dir-left-behind", "all holders released and %ds (2x TTL) passed, but %s still holds %d cache director(ies) of released layers", 2*ttl+2, sub, len(ents))
				return
			}
		}
		if useDB {
			n := 0
			bdb.View(func(tx *bolt.Tx) error {
				if b := tx.Bucket([]byte("filesystems")); b != nil {
					b.ForEach(func(k, v []byte) error { n++; return nil })
				}
				return nil
			})
			if n != 0 {
				s.Fail("metadata-left-behind", "all holders released and the TTL passed, but the metadata database still has %d filesystem bucket(s)", n)
				return
			}
		}
		// The descriptor cache of a closed chunk cache is not closed explicitly; its files are
		// closed by os.File finalizers once the cache is garbage (observation O2 in DESIGN.md).
		// Give the collector its chance before judging.
		for i := 0; i < 6 && countFDs() > fdBase; i++ {
			runtime.GC()
			for j := 0; j < 200; j++ {
				runtime.Gosched()
			}
		}
		if fds := countFDs(); fdBase >= 0 && fds > fdBase {
			var left []string
			for _, f := range listFDs() {
				if strings.Contains(f, "/dsim-") {
					left = append(left, filepath.Base(filepath.Dir(f))+"/"+"<file>")
				} else {
					left = append(left, f)
				}
			}
			s.Fail("fd-leak", "%d file descriptors are open after everything was released (%d before the run): %v", fds, fdBase, left)
			return
		}
		// (d) a later request resolves afresh and works
		reg.Cfg.LatencyDen, reg.Cfg.ExpireDen, reg.Cfg.Fickle = 0, 0, false
		for li, L := range layers {
			mark := len(reg.Log)
			l, err := rs.Resolve(context.Background(), hosts, refspec, descs[li])
			if err != nil {
				s.Fail("re-resolve-failed", "after release and expiry, resolving layer %d again failed: %v", li, err)
				return
			}
			if len(reg.Log) == mark {
				s.Fail("not-resolved-afresh", "after release and expiry, Resolve of layer %d made no registry request: a stale instance was returned", li)
				return
			}
			if err := l.Verify(L.built.TOCDigest); err != nil {
				s.Fail("re-resolve-failed", "Verify after re-resolution: %v", err)
				return
			}
			if len(L.names) > 0 {
				rn, _ := l.RootNode(0)
				tree := common.NewTree(rn)
				p := L.names[0]
				nd, _, _ := tree.Lookup(p)
				if fh, errno := tree.Open(nd); errno != 0 {
					s.Fail("re-resolve-failed", "Open after re-resolution: %v", errno)
					return
				} else if b, errno, _ := tree.Read(fh, 0, len(L.files[p])+1); errno != 0 || !bytes.Equal(b, L.files[p]) {
					s.Fail("re-resolve-failed", "Read after re-resolution: errno=%v", errno)
					return
				}
			}
			l.Close()
		}
	})
	out.Res = res
	out.Counters["reads"] += reads
	out.Counters["read_errors"] += readErrs
	out.Counters["resolves"] += resolves
	out.Counters["idle_periods"] += expired
	out.Nontrivial = resolves > 1 && (expired > 0 || !calm)
	out.Signature = fmt.Sprintf("L%d/h%d/ttl%d/db%v/calm%v/%s/%s/vi%d", nLayers, nHolders, ttl, useDB, calm, fcfg.HTTPCacheType, fcfg.FSCacheType, fcfg.BlobConfig.ValidInterval)
	out.Sample = map[string]any{"layers": nLayers, "holders": nHolders, "ttl_s": ttl, "store_db": useDB, "calm": calm, "http_cache": fcfg.HTTPCacheType, "fs_cache": fcfg.FSCacheType,
		"valid_interval_s": fcfg.BlobConfig.ValidInterval, "resolves": resolves, "reads": reads, "read_errors": readErrs}
	return out
}

func TestC12(t *testing.T) {
	hx.Main(t, hx.Prop{
		ID:   "C12",
		Rule: "each run draws 1-3 layers, 2-4 holder tasks doing 1-3 rounds of Resolve / Verify / RootNode / 1-5 operations (file reads through nodes, blob ReadAt, Check, Refresh, idling for up to 2x TTL) / Done or Close, a resolve TTL of 2-5 s, a connectivity-check interval of 1 s / 3 s / 10 min, memory or directory caches, memory or db metadata store; in the non-calm half the registry fails, stalls, delays, expires redirect URLs and goes down and up again. Oracles: a holder that has not released never sees an 'already closed' error nor wrong bytes (and no error at all when the registry is calm and reachable); overlapping resolves of one layer return the same instance (calm runs); after everything is released and 2x TTL passed the fscache/httpcache directories hold no file, the metadata database has no filesystem bucket, no file descriptor is left, and a new Resolve contacts the registry and works. Holders now and then start Prefetch / BackgroundFetch on the layer they hold (as fs.Mount does), so that cache writes are in flight when the layer is released; the audit also requires that the per-layer cache directories themselves are gone. A quarter of the runs is the 'daemon' campaign: the holders are MOUNTS made through the real filesystem (fs/fs.go Mount with source labels: resolution, pre-resolution and release of neighbouring layers, verification, prefetch, background fetch; Check; Unmount) at private mountpoints over 1-3 layers of one image, FUSE mounting may fail; a live mount never fails because something is closed, never returns wrong bytes (no error at all when calm), a failed Mount leaves no FUSE mount, after all unmounts the kernel table is empty and, 2x TTL + 45 s later, both cache directories are empty, and mounting again contacts the registry and works. non-trivial = more than one resolve and either an idle period or a non-calm registry; distinct = schedule hash x configuration",
		Run:  run,
		PanicIsViolation: true,
		HangIsViolation:  true,
		Components: map[string]string{"fs/layer Resolver (TTL caches, resolve lock, refcounts), layer, fs/remote blob, fs/reader, cache, util/cacheutil, util/namedmutex": "real (instrumented copy)", "metadata stores": "real", "registry": "stub (simreg; outages)", "clock": "simulated", "fs.filesystem (fs/fs.go: Mount / Check / Unmount, mountpoint table) in the daemon campaign": "real (instrumented copy); only the kernel side of FUSE is a stub (seam in package fs)"},
		Assumptions: []string{"instance identity is observed through a harness-only accessor added to the instrumented copy of package fs/layer", "memory caches cannot be inspected; resource release is judged on directories, the bolt file and file descriptors"},
	})
}
