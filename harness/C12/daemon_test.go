package c12

import (
	"bytes"
	"context"
	"fmt"
	"os"
	"path/filepath"
	"strings"
	"testing"
	"time"

	"github.com/containerd/stargz-snapshotter/fs/config"
	"github.com/containerd/stargz-snapshotter/zzverif/common"
	"verifsim/hx"
	"verifsim/simreg"
	"verifsim/simrt"
)

// runDaemon is the second campaign of C12: the holders of layers are MOUNTS made through the real
// filesystem (fs/fs.go: Mount resolves the layer and pre-resolves its neighbours, verifies, starts
// prefetch and background fetch; Unmount releases the layer). A mount must keep serving whatever the
// other mounts of the same layer, expiry, outages and connectivity checks do; once everything is
// unmounted and expired nothing of the layers may be left, and a later mount works again.
func runDaemon(t *testing.T, tape *simrt.Tape) *hx.Outcome {
	out := &hx.Outcome{Counters: map[string]int{"campaign.daemon": 1}}
	c := func(n int) int { return tape.Draw("cfg.daemon", n) }
	nLayers := 1 + c(3)
	img, err := common.GenImage(func(n int) int { return tape.Draw("gen.daemon", n) }, tape.Seed, nLayers, []int{8, 17, 64}[c(3)])
	if err != nil {
		out.InfraErr = "image: " + err.Error()
		return out
	}
	calm := c(2) == 0
	ttl := 2 + c(4)
	fcfg := config.Config{
		HTTPCacheType: []string{"memory", ""}[c(2)], FSCacheType: []string{"memory", ""}[c(2)], PrefetchTimeoutSec: 5,
		ResolveResultEntryTTLSec: ttl, NoBackgroundFetch: c(3) == 0, NoPrefetch: c(4) == 0,
		BlobConfig:           config.BlobConfig{ChunkSize: []int64{16, 64, 50000}[c(3)], FetchTimeoutSec: 30, MaxRetries: 1, MinWaitMSec: 10, MaxWaitMSec: 100, ValidInterval: int64([]int{1, 3, 600}[c(3)])},
		DirectoryCacheConfig: config.DirectoryCacheConfig{MaxLRUCacheEntry: 1 + c(3), MaxCacheFds: 1 + c(3), SyncAdd: c(2) == 1, Direct: c(3) == 0},
	}
	rcfg := simreg.Config{Base: simreg.Personality(c(int(simreg.NumPersonalities))), Redirect: c(3) == 0}
	if !calm {
		rcfg.FaultDen = []int{5, 15}[c(2)]
		rcfg.LatencyDen = []int{0, 4}[c(2)]
	}
	nHolders := 2 + c(3)
	fuseFailDen := []int{0, 0, 5}[c(3)]
	root, cleanup := hx.RunDir()
	defer cleanup()
	mounts, unmounts, reads, refused := 0, 0, 0, 0
	res := simrt.Run(t, tape, simrt.Options{MaxSteps: 3000000, HangAfter: 3 * time.Hour}, func(s *simrt.Sim, mt *simrt.Task) {
		s.Procs = 1
		s.UseDisk(simrt.DiskCfg{Yield: true})
		reg := simreg.New(s, rcfg)
		froot := filepath.Join(root, "stargz")
		dm, err := common.NewDaemon(s, froot, img, fcfg, reg, nil, s.Tape.Draw("cfg.daemon", 2) == 1)
		if err != nil {
			s.Fail("harness", "NewFilesystem: %v", err)
			return
		}
		dm.FuseFailDen = fuseFailDen
		ctx := context.Background()
		outage := false
		var ts []*simrt.Task
		for h := 0; h < nHolders; h++ {
			h := h
			ts = append(ts, s.Go(fmt.Sprintf("mounter%d", h), func(t *simrt.Task) {
				dr := func(n int) int { return s.Tape.Draw(t.Label, n) }
				rounds := 1 + dr(3)
				for r := 0; r < rounds && !s.Failed(); r++ {
					li := dr(nLayers)
					L := img[li]
					mp := filepath.Join(root, "mnt", fmt.Sprintf("h%dr%d", h, r), "fs")
					// a mount request may be refused after its layer was resolved (labels without or with another
					// TOC digest): the layer it resolved must be given back as well
					variant := []string{"ok", "ok", "ok", "wrong-toc", "none"}[s.Tape.Draw("lbl:"+t.Label, 5)]
					labels := dm.Labels(li, variant)
					f0 := s.Stats["fault.fuse-mount"]
					err := dm.FS.Mount(ctx, mp, labels)
					mounts++
					s.Event("m%d mount l%d labels=%s -> ok=%v", h, li, variant, err == nil)
					if variant != "ok" {
						if err == nil {
							dm.FS.Unmount(ctx, mp) // (whether this may succeed is C01's question)
						}
						refused++
						continue
					}
					if err != nil {
						if calm && !outage && s.Stats["fault.fuse-mount"] == f0 {
							s.Fail("mount-error", "Mount of layer %d failed against a calm reachable registry: %v", li, err)
							return
						}
						if _, left := dm.Kernel[mp]; left {
							s.Fail("fuse-mount-leaked", "Mount of layer %d reported failure but left a FUSE mount behind", li)
							return
						}
						continue
					}
					ops := 1 + dr(5)
					for o := 0; o < ops && !s.Failed(); o++ {
						switch k := dr(6); {
						case k < 3 && len(L.Names) > 0: // the container reads a file
							p := L.Names[dr(len(L.Names))]
							b, err := dm.ReadFile(mp, p, len(L.Files[p])+1)
							reads++
							if err != nil {
								st := ""
								if rn, ok := dm.Kernel[mp]; ok {
									st, _ = common.NewTree(rn).StateJSON()
								}
								if strings.Contains(st, "already closed") || strings.Contains(err.Error(), "lookup") {
									s.Fail("closed-under-holder", "mounter %d has not unmounted layer %d, yet reading %q failed (%v) because something is already closed or gone: %s", h, li, p, err, st)
									return
								}
								if calm && !outage {
									s.Fail("read-error", "reading %q through a live mount failed with the registry calm and reachable: %v; %s", p, err, st)
									return
								}
							} else if !bytes.Equal(b, L.Files[p]) {
								s.Fail("wrong-bytes", "a live mount returned wrong bytes for %q", p)
								return
							}
						case k == 3: // idle: cache entries expire, connectivity checks become due
							t.Sleep(time.Duration(1+dr(2*ttl)) * time.Second)
						default: // containerd asks whether the layer is still usable
							err := dm.FS.Check(ctx, mp, labels)
							if err != nil && calm && !outage {
								s.Fail("check-error", "Check of a live mount failed with the registry calm and reachable: %v", err)
								return
							}
						}
					}
					if err := dm.FS.Unmount(ctx, mp); err != nil {
						s.Fail("unmount-error", "Unmount of a live mount failed: %v", err)
						return
					}
					unmounts++
					s.Event("m%d unmounted l%d", h, li)
				}
			}))
		}
		if !calm {
			ts = append(ts, s.Go("network", func(t *simrt.Task) {
				for i := 0; i < 1+s.Tape.Draw(t.Label, 3); i++ {
					t.Sleep(time.Duration(1+s.Tape.Draw(t.Label, 6)) * time.Second)
					outage, reg.Down = true, true
					s.Event("registry down")
					t.Sleep(time.Duration(1+s.Tape.Draw(t.Label, 5)) * time.Second)
					reg.Down = false
					s.Event("registry up")
				}
			}))
		}
		mt.Join(ts...)
		if s.Failed() {
			return
		}
		// everything unmounted: the kernel holds no mount, and after expiry (pre-resolved neighbours are
		// released by Mount itself and expire too) nothing of the layers is left on disk
		dm.Quiet, reg.Down, reg.NoFaults = true, false, true
		reg.Cfg.LatencyDen, reg.Cfg.ExpireDen = 0, 0
		if len(dm.Kernel) != 0 {
			s.Fail("fuse-mount-leaked", "every mount was unmounted but %d FUSE mount(s) are still in the kernel's table", len(dm.Kernel))
			return
		}
		wait := 2*ttl + 45 // resolutions and fetches still in flight for neighbouring layers end within their timeouts
		mt.Sleep(time.Duration(wait) * time.Second)
		for _, sub := range []string{"fscache", "httpcache"} {
			if fs := filesUnder(filepath.Join(froot, sub)); len(fs) > 0 {
				s.Fail("cache-left-behind", "everything was unmounted and %ds passed (TTL %ds), but %s still holds %d file(s)", wait, ttl, sub, len(fs))
				return
			}
			if ents, _ := os.ReadDir(filepath.Join(froot, sub)); len(ents) > 0 {
				s.Fail("cache-dir-left-behind", "everything was unmounted and %ds passed (TTL %ds), but %s still holds %d cache director(ies)", wait, ttl, sub, len(ents))
				return
			}
		}
		// a later mount resolves afresh and works
		for li, L := range img {
			mp := filepath.Join(root, "mnt", fmt.Sprintf("again%d", li), "fs")
			mark := len(reg.Log)
			if err := dm.FS.Mount(ctx, mp, dm.Labels(li, "ok")); err != nil {
				s.Fail("re-resolve-failed", "after unmount and expiry, mounting layer %d again failed: %v", li, err)
				return
			}
			if li == 0 && len(reg.Log) == mark { // (mounting layer 0 pre-resolves its neighbours: those are fresh, not stale)
				s.Fail("not-resolved-afresh", "after unmount and expiry, Mount of layer %d made no registry request: a stale instance was used", li)
				return
			}
			if len(L.Names) > 0 {
				p := L.Names[0]
				if b, err := dm.ReadFile(mp, p, len(L.Files[p])+1); err != nil || !bytes.Equal(b, L.Files[p]) {
					s.Fail("re-resolve-failed", "reading %q after re-mounting layer %d: err=%v", p, li, err)
					return
				}
			}
			if err := dm.FS.Unmount(ctx, mp); err != nil {
				s.Fail("unmount-error", "Unmount after re-mount: %v", err)
				return
			}
		}
	})
	out.Res = res
	out.Counters["daemon.mounts"] += mounts
	out.Counters["daemon.unmounts"] += unmounts
	out.Counters["daemon.reads"] += reads
	out.Counters["daemon.refused_mounts"] += refused
	out.Nontrivial = unmounts > 1
	out.Signature = fmt.Sprintf("daemon/l%d/h%d/calm%v/ttl%d/%s/%s/f%d", nLayers, nHolders, calm, ttl, fcfg.HTTPCacheType, fcfg.FSCacheType, fuseFailDen)
	out.Sample = map[string]any{"campaign": "daemon", "layers": nLayers, "mounters": nHolders, "calm": calm, "ttl_s": ttl, "fuse_fail_den": fuseFailDen, "mounts": mounts, "log_tail": tailN(res.LogTail, 30)}
	return out
}

func tailN(l []string, n int) []string {
	if len(l) > n {
		return l[len(l)-n:]
	}
	return l
}
