// C06 — remote blob reads are byte-exact under any server behaviour and concurrency.
// Real: fs/remote (blob, Resolver, httpFetcher: redirect, 403 refresh, 400 single-range
// fallback), go-retryablehttp (in part of the runs), cache (memory / directory).
// Stub: registry + CDN (simreg), cache wrapper (records commits, injects loss/faults).
package c06

import (
	"bytes"
	"context"
	"crypto/sha256"
	"fmt"
	"path/filepath"
	"testing"
	"time"

	"github.com/containerd/containerd/v2/pkg/reference"
	"github.com/containerd/stargz-snapshotter/cache"
	"github.com/containerd/stargz-snapshotter/fs/config"
	"github.com/containerd/stargz-snapshotter/fs/remote"
	"github.com/containerd/stargz-snapshotter/zzverif/common"
	digest "github.com/opencontainers/go-digest"
	ocispec "github.com/opencontainers/image-spec/specs-go/v1"
	"verifsim/hx"
	"verifsim/simreg"
	"verifsim/simrt"
)

func blobBytes(seed uint64, n int) []byte {
	b := make([]byte, n)
	x := seed | 1
	for i := range b {
		x = x*6364136223846793005 + 1442695040888963407
		b[i] = byte(x >> 35)
	}
	return b
}

func run(t *testing.T, tape *simrt.Tape) *hx.Outcome {
	out := &hx.Outcome{Counters: map[string]int{}}
	cs := []int64{1, 2, 3, 7, 16, 64}[tape.Draw("cfg", 6)]
	var size int64
	switch tape.Draw("cfg", 8) {
	case 0:
		size = 0
	case 1:
		size = 1
	case 2:
		size = cs - 1
	case 3:
		size = cs
	case 4:
		size = cs + 1
	case 5:
		size = cs * int64(2+tape.Draw("cfg", 12))
	case 6:
		size = cs*int64(2+tape.Draw("cfg", 12)) + int64(tape.Draw("cfg", 2)*2-1)
	default:
		size = int64(tape.Draw("cfg", int(8*cs)+1))
	}
	if size < 0 {
		size = 0
	}
	pcs := []int64{0, cs, 2 * cs, 3*cs + 1}[tape.Draw("cfg", 4)]
	dirCache := tape.Draw("cfg", 2) == 1
	calm := tape.Draw("cfg", 3) == 0
	rc := simreg.Config{ReadYield: tape.Draw("cfg", 2) == 1}
	rc.Base = simreg.Personality(tape.Draw("cfg", int(simreg.NumPersonalities)))
	rc.Redirect = tape.Draw("cfg", 3) == 0
	rc.HeadRefused = tape.Draw("cfg", 3) == 0 && size > 0
	ccfg := common.CacheCfg{}
	if !calm {
		rc.Fickle = tape.Draw("cfg", 2) == 1
		if rc.Redirect {
			rc.ExpireDen = []int{0, 3, 8}[tape.Draw("cfg", 3)]
		}
		rc.FaultDen = []int{0, 6, 20}[tape.Draw("cfg", 3)]
		rc.LatencyDen = []int{0, 4}[tape.Draw("cfg", 2)]
		rc.StallOK = tape.Draw("cfg", 2) == 1
		ccfg.LossDen = []int{0, 3, 10}[tape.Draw("cfg", 3)]
		ccfg.FaultDen = []int{0, 0, 15}[tape.Draw("cfg", 3)]
		ccfg.ReadFault = []int{0, 0, 15}[tape.Draw("cfg", 3)]
	}
	nClients := 1 + tape.Draw("cfg", 4)
	// an empty blob legitimately answers 416 to the 0-1 probes of resolve/check; nothing must succeed there
	strict := calm && size > 0
	plain := tape.Draw("cfg", 2) == 1
	data := blobBytes(tape.Seed, int(size))
	dgst := digest.FromBytes(data)
	root, cleanup := hx.RunDir()
	defer cleanup()
	reads, errs := 0, 0
	var lastFetched int64
	var sc *common.SimCache
	var reg *simreg.Registry
	shared := 0
	res := simrt.Run(t, tape, simrt.Options{MaxSteps: 300000, HangAfter: 3 * time.Hour}, func(s *simrt.Sim, mt *simrt.Task) {
		s.UseDisk(simrt.DiskCfg{Yield: true})
		reg = simreg.New(s, rc)
		reg.Blobs[dgst.String()] = data
		var inner cache.BlobCache
		if dirCache {
			var err error
			inner, err = cache.NewDirectoryCache(filepath.Join(root, "c"), cache.DirectoryCacheConfig{
				MaxLRUCacheEntry: 1 + s.Tape.Draw("cfg2", 3), MaxCacheFds: 1 + s.Tape.Draw("cfg2", 3), SyncAdd: s.Tape.Draw("cfg2", 2) == 1, Direct: s.Tape.Draw("cfg2", 4) == 0})
			if err != nil {
				s.Fail("harness", "NewDirectoryCache: %v", err)
				return
			}
		} else {
			inner = cache.NewMemoryCache()
		}
		sc = common.NewSimCache(s, "blob", inner, ccfg)
		bcfg := config.BlobConfig{ChunkSize: cs, PrefetchChunkSize: pcs, FetchTimeoutSec: 60, ValidInterval: int64(1 + s.Tape.Draw("cfg2", 30)),
			ForceSingleRangeMode: s.Tape.Draw("cfg2", 6) == 0, MaxRetries: 1 + s.Tape.Draw("cfg2", 2), MinWaitMSec: 10, MaxWaitMSec: 500}
		rs := remote.NewResolver(bcfg, nil)
		refspec, err := reference.Parse("reg.example/repo/img:latest")
		if err != nil {
			s.Fail("harness", "parse ref: %v", err)
			return
		}
		desc := ocispec.Descriptor{Digest: dgst, Size: size, MediaType: ocispec.MediaTypeImageLayerGzip}
		hosts := common.Hosts(reg, []time.Duration{5 * time.Second, 30 * time.Second}[s.Tape.Draw("cfg2", 2)], nil, plain)
		var blob remote.Blob
		for attempt := 0; attempt < 6 && blob == nil; attempt++ {
			blob, err = rs.Resolve(context.Background(), hosts, refspec, desc, sc)
			if err != nil {
				blob = nil
				if strict {
					s.Fail("resolve-error", "Resolve failed against a calm registry: %v", err)
					return
				}
				out.Counters["resolve_errors"]++
			}
		}
		if blob == nil {
			out.Counters["never_resolved"]++
			return
		}
		if blob.Size() != size {
			s.Fail("wrong-size", "Size()=%d, blob has %d bytes", blob.Size(), size)
			return
		}
		// chunk id -> region, computed independently from the documented key format
		blobURL := fmt.Sprintf("https://reg.example/v2/repo/img/blobs/%s", dgst)
		chunkOf := map[string][2]int64{}
		for b := int64(0); b < size; b += cs {
			e := b + cs - 1
			if e >= size {
				e = size - 1
			}
			chunkOf[fmt.Sprintf("%x", sha256.Sum256([]byte(fmt.Sprintf("%s-%d-%d", blobURL, b, e))))] = [2]int64{b, e}
		}
		sample := func(where string) bool {
			fs := blob.FetchedSize()
			if fs < lastFetched {
				s.Fail("fetched-size-decreased", "FetchedSize went from %d to %d (%s)", lastFetched, fs, where)
				return false
			}
			if fs > size {
				s.Fail("fetched-size-exceeds", "FetchedSize=%d exceeds the blob size %d (%s)", fs, size, where)
				return false
			}
			var inv int64
			for k := range sc.Invoked {
				if c, ok := chunkOf[k]; ok {
					inv += c[1] - c[0] + 1
				} else {
					s.Fail("unknown-cache-key", "a chunk was committed under key %s which is not the id of any chunk of this blob", k)
					return false
				}
			}
			if fs > inv {
				s.Fail("fetched-size-overcount", "FetchedSize=%d but only %d distinct bytes were ever handed to the cache (%s)", fs, inv, where)
				return false
			}
			lastFetched = fs
			return true
		}
		var ts []*simrt.Task
		for c := 0; c < nClients; c++ {
			c := c
			ts = append(ts, s.Go(fmt.Sprintf("client%d", c), func(t *simrt.Task) {
				n := 1 + s.Tape.Draw(t.Label, 6)
				for i := 0; i < n && !s.Failed(); i++ {
					switch k := s.Tape.Draw(t.Label, 10); {
					case k < 6: // ReadAt
						off := int64(s.Tape.Draw(t.Label, int(size+cs)+1))
						ln := s.Tape.Draw(t.Label, int(7*cs)+2)
						if s.Tape.Draw(t.Label, 8) == 0 {
							off, ln = 0, int(size)
						}
						p := make([]byte, ln)
						for j := range p {
							p[j] = 0xAA
						}
						var opts []remote.Option
						if s.Tape.Draw(t.Label, 3) == 0 {
							opts = append(opts, remote.WithCacheOpts(cache.Direct()))
						}
						seq := s.Event("c%d ReadAt off=%d len=%d", c, off, ln)
						nr, err := blob.ReadAt(p, off, opts...)
						reads++
						if err != nil {
							errs++
							s.Event("c%d ReadAt(%d) -> error", c, seq)
							if strict {
								s.Fail("read-error", "ReadAt(off=%d,len=%d) failed against a calm registry with no injected faults: %v", off, ln, err)
							}
							continue
						}
						want := int64(ln)
						if rem := size - off; rem < want {
							want = rem
						}
						if want < 0 {
							want = 0
						}
						if int64(nr) != want {
							s.Fail("wrong-length", "ReadAt(off=%d,len=%d) on a blob of %d bytes returned n=%d, want %d", off, ln, size, nr, want)
							return
						}
						if nr > 0 && !bytes.Equal(p[:nr], data[off:off+int64(nr)]) {
							at := 0
							for at < nr && p[at] == data[off+int64(at)] {
								at++
							}
							s.Fail("wrong-bytes", "ReadAt(off=%d,len=%d) returned bytes differing from the blob at offset %d (chunk size %d, blob size %d)", off, ln, off+int64(at), cs, size)
							return
						}
						s.Event("c%d ReadAt(%d) -> %d ok", c, seq, nr)
					case k < 8: // Cache (prefetch path)
						off := int64(s.Tape.Draw(t.Label, int(size)+1))
						ln := int64(s.Tape.Draw(t.Label, int(size-off)+1))
						s.Event("c%d Cache off=%d len=%d", c, off, ln)
						if err := blob.Cache(off, ln); err != nil && strict {
							s.Fail("cache-error", "Cache(off=%d,len=%d) failed against a calm registry: %v", off, ln, err)
						}
					case k == 8:
						t.Sleep(time.Duration(1+s.Tape.Draw(t.Label, 40)) * time.Second)
						err := blob.Check()
						s.Event("c%d Check -> %v", c, err == nil)
						if err != nil && strict {
							s.Fail("check-error", "Check failed against a calm registry: %v", err)
						}
					default:
						err := blob.Refresh(context.Background(), hosts, refspec, desc)
						s.Event("c%d Refresh -> %v", c, err == nil)
						if err != nil && strict {
							s.Fail("refresh-error", "Refresh failed against a calm registry: %v", err)
						}
					}
					if !sample(fmt.Sprintf("client %d after op %d", c, i)) {
						return
					}
				}
			}))
		}
		mt.Join(ts...)
		if s.Failed() {
			return
		}
		// quiet period: faults stop, the registry turns calm; a full read must now succeed
		reg.NoFaults = true
		reg.Cfg.Fickle = false
		reg.Cfg.ExpireDen = 0
		reg.Cfg.LatencyDen = 0 // slow answers beyond the request timeout are faults too
		reg.Cfg.Base = simreg.Multipart
		sc.Quiet = true
		if !calm {
			blob.Refresh(context.Background(), hosts, refspec, desc)
		}
		p := make([]byte, size+3)
		nr, err := blob.ReadAt(p, 0)
		if err != nil {
			s.Fail("no-progress-after-faults", "a full read after all faults stopped failed: %v", err)
			return
		}
		if int64(nr) != size || !bytes.Equal(p[:nr], data) {
			s.Fail("wrong-bytes", "full read after the quiet period returned %d bytes differing from the blob (size %d)", nr, size)
			return
		}
		if !sample("end") {
			return
		}
		var acked int64
		for k := range sc.Acked {
			c := chunkOf[k]
			acked += c[1] - c[0] + 1
		}
		if fs := blob.FetchedSize(); fs != acked {
			s.Fail("fetched-size-mismatch", "at quiescence FetchedSize=%d but the chunks acknowledged by the cache hold %d distinct bytes (blob %d bytes, chunk %d)", fs, acked, size, cs)
			return
		}
		for _, q := range reg.Log {
			if q.Shape == "multipart" || q.Shape == "coalesce" || q.Shape == "super" {
				shared++
			}
		}
		blob.Close()
	})
	out.Res = res
	out.Counters["reads"] += reads
	out.Counters["read_errors"] += errs
	if reg != nil {
		for k, v := range reg.Stats {
			out.Counters["reg."+k] += v
		}
		out.Counters["http_requests"] += len(reg.Log)
	}
	if sc != nil {
		out.Counters["cache_commits"] += len(sc.Commits)
	}
	out.Nontrivial = reads > 0 && size > cs && reg != nil && len(reg.Log) > 3
	out.Signature = fmt.Sprintf("pl%v/cs%d/sz%d/p%d/d%v/calm%v/%v/r%v/x%d/f%d/c%d", plain, cs, size, pcs, dirCache, calm, rc.Base, rc.Redirect, rc.ExpireDen, rc.FaultDen, nClients)
	out.Sample = map[string]any{"chunk_size": cs, "blob_size": size, "prefetch_chunk_size": pcs, "dir_cache": dirCache, "calm": calm,
		"personality": rc.Base.String(), "fickle": rc.Fickle, "redirect": rc.Redirect, "expire_den": rc.ExpireDen, "reg_fault_den": rc.FaultDen,
		"cache_loss_den": ccfg.LossDen, "plain_transport": plain, "clients": nClients, "reads": reads, "read_errors": errs, "log_tail": tail(res.LogTail, 25)}
	return out
}

func tail(l []string, n int) []string {
	if len(l) > n {
		return l[len(l)-n:]
	}
	return l
}

func TestC06(t *testing.T) {
	hx.Main(t, hx.Prop{
		ID:   "C06",
		Rule: "each run draws chunk size {1,2,3,7,16,64}, blob size (0, 1, chunk-1, chunk, chunk+1, k*chunk, k*chunk+-1, random), prefetch chunk size, memory or directory cache with tiny LRUs, a registry personality (multipart, single-range-only with 400, super-range, whole body, coalescing; fixed or per request), redirect to a CDN whose URLs expire with 403, HEAD refused, transient failures (connection error, 5xx, truncated or failing body, omitted part, stall), request latency, cache loss / cache I/O errors, either the production client (go-retryablehttp, 1-2 retries, 5s/30s request timeout, redirects followed by net/http) or a plain transport (redirects and 403 refresh handled by fs/remote itself), and 1-4 client tasks issuing up to 6 ReadAt(offset incl. beyond EOF, length)/Cache/Check/Refresh each; every lock, cache call, HTTP request and (optionally) body read is a scheduling point. A third of the runs are 'calm' (no faults, fixed personality): there no operation may fail. non-trivial = blob larger than one chunk, at least one read and more than 3 HTTP requests; distinct = schedule hash x configuration",
		Run:  run,
		HangIsViolation: true,
		Components: map[string]string{"fs/remote blob+resolver+httpFetcher": "real (instrumented copy)", "cache": "real (memory / directory on tmpfs) behind a recording+faulting wrapper", "go-retryablehttp + net/http client timeout": "real, configured like service/resolver does (jitter from the tape)", "registry, CDN": "stub (verifsim/simreg)", "clock": "simulated"},
		Assumptions: []string{"the registry is honest about bytes (Byzantine payloads belong to C01/C04)", "equality of FetchedSize with stored bytes is judged at quiescence; in flight only monotonicity and upper bounds are judged"},
	})
}
