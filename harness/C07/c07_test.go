// C07 — each layer is served as a correct overlayfs lower directory of the OCI layer.
// Real: fs/layer node.go (Readdir/Lookup/Getattr/Getxattr/Listxattr, whiteouts, opaque dirs,
// state dir) over both metadata stores, resolver/reader/remote stack underneath.
// Stub: registry (honest), kernel.
package c07

import (
	"archive/tar"
	"context"
	"encoding/json"
	"fmt"
	"io"
	"path"
	"path/filepath"
	"sort"
	"strings"
	"syscall"
	"testing"
	"time"

	"github.com/containerd/containerd/v2/pkg/reference"
	dbmetadata "github.com/containerd/stargz-snapshotter/cmd/containerd-stargz-grpc/db"
	"github.com/containerd/stargz-snapshotter/fs/config"
	"github.com/containerd/stargz-snapshotter/fs/layer"
	"github.com/containerd/stargz-snapshotter/metadata"
	memorymetadata "github.com/containerd/stargz-snapshotter/metadata/memory"
	"github.com/containerd/stargz-snapshotter/task"
	"github.com/containerd/stargz-snapshotter/zzverif/common"
	fusefs "github.com/hanwen/go-fuse/v2/fs"
	"github.com/hanwen/go-fuse/v2/fuse"
	ocispec "github.com/opencontainers/image-spec/specs-go/v1"
	bolt "go.etcd.io/bbolt"
	"verifsim/hx"
	"verifsim/simreg"
	"verifsim/simrt"
)

// ---- reference translation: OCI layer tree -> overlayfs lower directory -------------

type vnode struct {
	whiteout bool
	m        *common.MNode // real entry (resolved through hard links when presented)
}

type vdir struct {
	ents   map[string]vnode
	opaque bool
	hidden []string // names present in the tar that must not be visible
}

func translate(dir *common.MNode, isRoot bool) vdir {
	v := vdir{ents: map[string]vnode{}}
	for name, c := range dir.Children {
		switch {
		case name == ".wh..wh..opq":
			v.opaque = true
			v.hidden = append(v.hidden, name)
		case strings.HasPrefix(name, ".wh."):
			v.hidden = append(v.hidden, name)
		case isRoot && (name == ".prefetch.landmark" || name == ".no.prefetch.landmark" || name == "stargz.index.json"):
			v.hidden = append(v.hidden, name)
		default:
			v.ents[name] = vnode{m: c}
		}
	}
	for name := range dir.Children {
		if strings.HasPrefix(name, ".wh.") && name != ".wh..wh..opq" {
			target := strings.TrimPrefix(name, ".wh.")
			if _, real := v.ents[target]; !real {
				v.ents[target] = vnode{whiteout: true}
			}
		}
	}
	return v
}

// ---- trees for the stacking check ---------------------------------------------------

type tnode struct {
	kind     string // dir reg symlink char block fifo
	sig      string // content identity (data hash / link target / device numbers)
	children map[string]*tnode
}

func (t *tnode) dump(p string, out *[]string) {
	*out = append(*out, fmt.Sprintf("%s %s %s", p, t.kind, t.sig))
	var ks []string
	for k := range t.children {
		ks = append(ks, k)
	}
	sort.Strings(ks)
	for _, k := range ks {
		t.children[k].dump(p+"/"+k, out)
	}
}

func kindOf(typ byte) string {
	switch typ {
	case tar.TypeDir:
		return "dir"
	case tar.TypeSymlink:
		return "symlink"
	case tar.TypeChar:
		return "char"
	case tar.TypeBlock:
		return "block"
	case tar.TypeFifo:
		return "fifo"
	}
	return "reg"
}

func sigOf(m *common.MNode) string {
	r := m.Resolve()
	switch r.Type {
	case tar.TypeReg:
		return fmt.Sprintf("len=%d:%x", len(r.Data), simrt.Mix(uint64(len(r.Data)), hashBytes(r.Data)))
	case tar.TypeSymlink:
		return "->" + r.Link
	case tar.TypeChar, tar.TypeBlock:
		return fmt.Sprintf("%d:%d", r.Major, r.Minor)
	}
	return ""
}

func hashBytes(b []byte) uint64 {
	var h uint64 = 14695981039346656037
	for _, c := range b {
		h ^= uint64(c)
		h *= 1099511628211
	}
	return h
}

// applyTar applies one OCI layer (reference tree m) on top of root, by the OCI image spec rules.
func applyTar(root *tnode, m *common.MNode) {
	var rec func(dst *tnode, src *common.MNode)
	rec = func(dst *tnode, src *common.MNode) {
		// whiteouts and opaque markers act on what the lower layers left in this directory
		if _, ok := src.Children[".wh..wh..opq"]; ok {
			dst.children = map[string]*tnode{}
		}
		for name := range src.Children {
			if strings.HasPrefix(name, ".wh.") && name != ".wh..wh..opq" {
				delete(dst.children, strings.TrimPrefix(name, ".wh."))
			}
		}
		for name, c := range src.Children {
			if strings.HasPrefix(name, ".wh.") {
				continue
			}
			r := c.Resolve()
			if r.Type == tar.TypeDir {
				d, ok := dst.children[name]
				if !ok || d.kind != "dir" {
					d = &tnode{kind: "dir", children: map[string]*tnode{}}
					dst.children[name] = d
				}
				rec(d, c)
				continue
			}
			dst.children[name] = &tnode{kind: kindOf(r.Type), sig: sigOf(c)}
		}
	}
	rec(root, m)
}

// served view of one layer as observed through the node interface
type snode struct {
	kind     string // dir reg symlink char block fifo whiteout
	sig      string
	opaque   bool
	children map[string]*snode
}

// overlayMerge stacks a served lower directory on top of root by overlayfs rules.
func overlayMerge(root *tnode, up *snode) {
	var rec func(dst *tnode, src *snode)
	rec = func(dst *tnode, src *snode) {
		if src.opaque {
			dst.children = map[string]*tnode{}
		}
		for name, c := range src.children {
			switch c.kind {
			case "whiteout":
				delete(dst.children, name)
			case "dir":
				d, ok := dst.children[name]
				if !ok || d.kind != "dir" {
					d = &tnode{kind: "dir", children: map[string]*tnode{}}
					dst.children[name] = d
				}
				rec(d, c)
			default:
				dst.children[name] = &tnode{kind: c.kind, sig: c.sig}
			}
		}
	}
	rec(root, up)
}

func sysKind(mode uint32) string {
	switch mode & syscall.S_IFMT {
	case syscall.S_IFDIR:
		return "dir"
	case syscall.S_IFLNK:
		return "symlink"
	case syscall.S_IFCHR:
		return "char"
	case syscall.S_IFBLK:
		return "block"
	case syscall.S_IFIFO:
		return "fifo"
	}
	return "reg"
}

func run(t *testing.T, tape *simrt.Tape) *hx.Outcome {
	out := &hx.Outcome{Counters: map[string]int{}}
	d := func(n int) int { return tape.Draw("gen", n) }
	nLayers := 1 + d(3)
	cs := []int{8, 17, 64}[d(3)]
	type lay struct {
		model *common.MNode
		built *common.Built
		spec  *common.TarSpec
	}
	var layers []lay
	for i := 0; i < nLayers; i++ {
		spec := common.GenTar(d, tape.Seed+uint64(i)*7919, common.GenOpts{ChunkSize: cs, MaxEntries: 9, Whiteouts: true, OddNames: d(2) == 0, BigFiles: d(2) == 0})
		tb := spec.Bytes()
		m, err := common.Model(tb)
		if err != nil {
			out.InfraErr = "model: " + err.Error()
			return out
		}
		bc := common.BuildCfg{ChunkSize: cs, Compression: d(2), Workers: 1}
		b, err := common.BuildBlob(tb, bc)
		if err != nil {
			out.InfraErr = "build: " + err.Error()
			return out
		}
		layers = append(layers, lay{model: m, built: b, spec: spec})
	}
	c := func(n int) int { return tape.Draw("cfg", n) }
	useDB := c(2) == 1
	opq := []layer.OverlayOpaqueType{layer.OverlayOpaqueAll, layer.OverlayOpaqueTrusted, layer.OverlayOpaqueUser}[c(3)]
	wantOpq := map[layer.OverlayOpaqueType][]string{layer.OverlayOpaqueAll: {"trusted.overlay.opaque", "user.overlay.opaque"}, layer.OverlayOpaqueTrusted: {"trusted.overlay.opaque"}, layer.OverlayOpaqueUser: {"user.overlay.opaque"}}[opq]
	nTasks := 1 + c(3)
	fcfg := config.Config{HTTPCacheType: "memory", FSCacheType: "memory", NoPrometheus: true,
		BlobConfig: config.BlobConfig{ChunkSize: 50000, FetchTimeoutSec: 60, MaxRetries: 1, MinWaitMSec: 10, MaxWaitMSec: 100, ValidInterval: 60}}
	root, cleanup := hx.RunDir()
	defer cleanup()
	store := metadata.Store(memorymetadata.NewReader)
	if useDB {
		bdb, err := bolt.Open(filepath.Join(root, "metadata.db"), 0600, &bolt.Options{NoSync: true, InitialMmapSize: 64 << 20})
		if err != nil {
			out.InfraErr = "bolt: " + err.Error()
			return out
		}
		defer bdb.Close()
		store = func(sr *io.SectionReader, opts ...metadata.Option) (metadata.Reader, error) {
			return dbmetadata.NewReader(bdb, sr, opts...)
		}
	}
	nops, whiteoutsSeen, opaqueSeen := 0, 0, 0
	res := simrt.Run(t, tape, simrt.Options{MaxSteps: 400000, HangAfter: time.Hour}, func(s *simrt.Sim, mt *simrt.Task) {
		s.Procs = 1
		s.UseDisk(simrt.DiskCfg{Yield: false})
		reg := simreg.New(s, simreg.Config{Base: simreg.Multipart})
		tm := task.NewBackgroundTaskManager(2, time.Second)
		rs, err := layer.NewResolver(filepath.Join(root, "r"), tm, fcfg, nil, store, opq, nil)
		if err != nil {
			s.Fail("harness", "NewResolver: %v", err)
			return
		}
		refspec, _ := reference.Parse("reg.example/repo/img:latest")
		hosts := common.Hosts(reg, 30*time.Second, nil, true)
		merged := &tnode{kind: "dir", children: map[string]*tnode{}}  // overlay stack of the served views
		applied := &tnode{kind: "dir", children: map[string]*tnode{}} // OCI application of the tars
		for li, L := range layers {
			reg.Blobs[L.built.Digest.String()] = L.built.Blob
			desc := ocispec.Descriptor{Digest: L.built.Digest, Size: int64(len(L.built.Blob)), MediaType: ocispec.MediaTypeImageLayerGzip}
			l, err := rs.Resolve(context.Background(), hosts, refspec, desc)
			if err != nil {
				s.Fail("resolve-error", "layer %d: %v", li, err)
				return
			}
			if err := l.Verify(L.built.TOCDigest); err != nil {
				s.Fail("verify-error", "layer %d: %v", li, err)
				return
			}
			base := uint32(li + 1)
			rn, err := l.RootNode(base)
			if err != nil {
				s.Fail("rootnode-error", "%v", err)
				return
			}
			tree := common.NewTree(rn)
			inoOf := map[uint64]string{}
			var dirs []string
			L.model.Walk(func(n *common.MNode) {
				if n.Type == tar.TypeDir {
					dirs = append(dirs, n.Path)
				}
			})
			// checkDir verifies one directory completely: listing, lookups (visible and hidden names), attributes, xattrs
			checkDir := func(t *simrt.Task, dp string, lookupFirst bool) bool {
				dm := L.model.Get(dp)
				v := translate(dm, dp == "")
				dn, _, errno := tree.Lookup(dp)
				if errno != 0 {
					s.Fail("lookup-failed", "layer %d: Lookup(%q) of an existing directory failed: %v", li, dp, errno)
					return false
				}
				lk := dn.(fusefs.NodeLookuper)
				lookup := func(name string) (fusefs.InodeEmbedder, *fuse.EntryOut, syscall.Errno) {
					var eo fuse.EntryOut
					in, errno := lk.Lookup(context.Background(), name, &eo)
					if errno != 0 {
						return nil, nil, errno
					}
					return in.Operations(), &eo, 0
				}
				var names []string
				for k := range v.ents {
					names = append(names, k)
				}
				sort.Strings(names)
				doLookups := func() bool {
					for _, name := range names {
						vn := v.ents[name]
						n, eo, errno := lookup(name)
						if errno != 0 {
							s.Fail("listed-not-lookupable", "layer %d dir %q: %q belongs to the overlay view (whiteout=%v) but Lookup fails: %v", li, dp, name, vn.whiteout, errno)
							return false
						}
						key := path.Join(dp, name)
						if !vn.whiteout {
							key = vn.m.Resolve().Path
						}
						if prev, ok := inoOf[eo.Attr.Ino]; ok && prev != key {
							s.Fail("inode-not-unique", "layer %d: inode %d serves %q and %q", li, eo.Attr.Ino, prev, key)
							return false
						}
						inoOf[eo.Attr.Ino] = key
						if eo.Attr.Ino>>32 != uint64(base) {
							s.Fail("inode-base", "layer %d: inode %#x of %q does not carry the layer's base %d", li, eo.Attr.Ino, key, base)
							return false
						}
						if vn.whiteout {
							whiteoutsSeen++
							if eo.Attr.Mode != syscall.S_IFCHR || eo.Attr.Rdev != 0 {
								s.Fail("bad-whiteout", "layer %d dir %q: whiteout %q is served with mode %#o rdev %#x, want a 0/0 character device", li, dp, name, eo.Attr.Mode, eo.Attr.Rdev)
								return false
							}
							if ao, errno := tree.Getattr(n); errno != 0 || ao.Attr.Mode != syscall.S_IFCHR || ao.Attr.Rdev != 0 {
								s.Fail("bad-whiteout", "layer %d dir %q: Getattr of whiteout %q: errno=%v", li, dp, name, errno)
								return false
							}
							continue
						}
						r := vn.m.Resolve()
						if want := common.TarModeToSys(r.Type, r.Mode); eo.Attr.Mode != want {
							s.Fail("wrong-mode", "layer %d: %q served with mode %#o, the layer says %#o", li, key, eo.Attr.Mode, want)
							return false
						}
					}
					for _, h := range v.hidden {
						if _, _, errno := lookup(h); errno == 0 {
							s.Fail("hidden-visible", "layer %d dir %q: Lookup(%q) succeeds; markers, whiteout files and landmarks must not be visible", li, dp, h)
							return false
						}
					}
					for _, nm := range []string{"nosuch", ".wh.nosuch"} {
						if _, ok := dm.Children[nm]; ok {
							continue
						}
						if _, _, errno := lookup(nm); errno == 0 {
							s.Fail("phantom-entry", "layer %d dir %q: Lookup(%q) succeeds but the layer has no such entry", li, dp, nm)
							return false
						}
					}
					return true
				}
				if lookupFirst && !doLookups() {
					return false
				}
				ents, errno := tree.Readdir(dn)
				if errno != 0 {
					s.Fail("readdir-failed", "layer %d: Readdir(%q): %v", li, dp, errno)
					return false
				}
				var got []string
				for _, e := range ents {
					if e.Name == "." || e.Name == ".." {
						continue
					}
					got = append(got, e.Name)
					vn, ok := v.ents[e.Name]
					if !ok {
						continue
					}
					wantKind := "char"
					if !vn.whiteout {
						wantKind = kindOf(vn.m.Resolve().Type)
					}
					if k := sysKind(e.Mode); k != wantKind {
						s.Fail("readdir-wrong-type", "layer %d dir %q: %q listed as %s, want %s", li, dp, e.Name, k, wantKind)
						return false
					}
				}
				sort.Strings(got)
				if fmt.Sprint(got) != fmt.Sprint(names) {
					s.Fail("readdir-mismatch", "layer %d: Readdir(%q) = %v; the overlayfs translation of the layer has %v (hidden: %v)", li, dp, got, names, v.hidden)
					return false
				}
				if !lookupFirst && !doLookups() {
					return false
				}
				// opaque marker -> overlay opaque xattr(s)
				xs, errno := tree.Listxattr(dn)
				if errno != 0 {
					s.Fail("listxattr-failed", "layer %d: Listxattr(%q): %v", li, dp, errno)
					return false
				}
				var wantX []string
				if v.opaque {
					opaqueSeen++
					wantX = append(wantX, wantOpq...)
				}
				for k := range dm.Xattrs {
					wantX = append(wantX, k)
				}
				sort.Strings(wantX)
				if fmt.Sprint(xs) != fmt.Sprint(wantX) {
					s.Fail("wrong-opaque-xattr", "layer %d: Listxattr(%q) = %v, want %v (opaque=%v, mode=%v)", li, dp, xs, wantX, v.opaque, opq)
					return false
				}
				for _, x := range []string{"trusted.overlay.opaque", "user.overlay.opaque"} {
					val, errno := tree.Getxattr(dn, x)
					want := false
					for _, w := range wantOpq {
						if w == x && v.opaque {
							want = true
						}
					}
					if want && (errno != 0 || val != "y") {
						s.Fail("wrong-opaque-xattr", "layer %d: Getxattr(%q,%q) = %q/%v on an opaque directory", li, dp, x, val, errno)
						return false
					}
					if !want && errno == 0 {
						s.Fail("wrong-opaque-xattr", "layer %d: Getxattr(%q,%q) = %q although the directory is not opaque in mode %v", li, dp, x, val, opq)
						return false
					}
				}
				nops++
				return true
			}
			// concurrent tasks check directories in drawn orders; some look up before the listing is memoised
			var ts []*simrt.Task
			for k := 0; k < nTasks; k++ {
				k := k
				ts = append(ts, s.Go(fmt.Sprintf("l%d-walker%d", li, k), func(t *simrt.Task) {
					n := 1 + s.Tape.Draw(t.Label, 2*len(dirs))
					for i := 0; i < n && !s.Failed(); i++ {
						dp := dirs[s.Tape.Draw(t.Label, len(dirs))]
						t.Yield("dir")
						if !checkDir(t, dp, s.Tape.Draw(t.Label, 2) == 0) {
							return
						}
					}
				}))
			}
			mt.Join(ts...)
			if s.Failed() {
				return
			}
			// full sweep (every directory once more: stability of inode numbers and memoised listings)
			for _, dp := range dirs {
				if !checkDir(mt, dp, false) {
					return
				}
			}
			// state file
			st, errno := tree.StateJSON()
			var sj struct {
				Digest      string `json:"digest"`
				Size        *int64 `json:"size"`
				FetchedSize *int64 `json:"fetchedSize"`
			}
			if errno != 0 || json.Unmarshal([]byte(st), &sj) != nil || sj.Digest != L.built.Digest.String() || sj.Size == nil || *sj.Size != int64(len(L.built.Blob)) || sj.FetchedSize == nil || *sj.FetchedSize < 0 || *sj.FetchedSize > *sj.Size {
				s.Fail("bad-state-file", "layer %d: state file %q (errno %v) is not valid JSON reporting digest %s, size %d and a fetched size within it", li, st, errno, L.built.Digest, len(L.built.Blob))
				return
			}
			if ents, _ := tree.Readdir(rn); true {
				for _, e := range ents {
					if e.Name == ".stargz-snapshotter" {
						s.Fail("state-dir-listed", "layer %d: the state directory appears in the root listing", li)
						return
					}
				}
			}
			// observe the served layer completely and stack it
			var observe func(n fusefs.InodeEmbedder, dp string) *snode
			observe = func(n fusefs.InodeEmbedder, dp string) *snode {
				sn := &snode{kind: "dir", children: map[string]*snode{}}
				for _, x := range wantOpq {
					if v, errno := tree.Getxattr(n, x); errno == 0 && v == "y" {
						sn.opaque = true
					}
				}
				ents, _ := tree.Readdir(n)
				for _, e := range ents {
					if e.Name == "." || e.Name == ".." {
						continue
					}
					var eo fuse.EntryOut
					in, errno := n.(fusefs.NodeLookuper).Lookup(context.Background(), e.Name, &eo)
					if errno != 0 {
						continue
					}
					cp := path.Join(dp, e.Name)
					switch k := sysKind(eo.Attr.Mode); {
					case k == "dir":
						sn.children[e.Name] = observe(in.Operations(), cp)
					case k == "char" && eo.Attr.Rdev == 0 && eo.Attr.Mode == syscall.S_IFCHR:
						sn.children[e.Name] = &snode{kind: "whiteout"}
					default:
						m := L.model.Get(cp)
						sig := ""
						if m != nil {
							sig = sigOf(m) // content equality is C02's business; identity is enough here
						}
						sn.children[e.Name] = &snode{kind: k, sig: sig}
					}
				}
				return sn
			}
			overlayMerge(merged, observe(rn, ""))
			applyTar(applied, L.model)
			var a, b []string
			merged.dump("", &a)
			applied.dump("", &b)
			if fmt.Sprint(a) != fmt.Sprint(b) {
				s.Fail("stack-differs", "after layer %d: stacking the served layers by overlayfs rules gives %v; applying the layer tars in order gives %v", li, a, b)
				return
			}
			l.Done()
		}
	})
	out.Res = res
	out.Counters["dir_checks"] += nops
	out.Counters["whiteouts_served"] += whiteoutsSeen
	out.Counters["opaque_dirs"] += opaqueSeen
	out.Counters["layers"] += nLayers
	out.Nontrivial = whiteoutsSeen > 0 || opaqueSeen > 0
	var descs []string
	for _, L := range layers {
		var n []string
		for _, e := range L.spec.Entries {
			n = append(n, e.Name)
		}
		descs = append(descs, strings.Join(n, " "))
	}
	out.Signature = fmt.Sprintf("%v/db%v/opq%d/t%d", descs, useDB, opq, nTasks)
	out.Sample = map[string]any{"layers": descs, "store_db": useDB, "opaque_mode": int(opq), "walkers": nTasks, "whiteouts_served": whiteoutsSeen, "opaque_dirs": opaqueSeen}
	return out
}

func TestC07(t *testing.T) {
	hx.Main(t, hx.Prop{
		ID:   "C07",
		Rule: "each run draws a stack of 1-3 layer tars with additions, replaced entries, whiteouts (.wh.X for names that do and do not exist as regular files in the same layer), opaque markers at root and in sub-directories, user files named like landmarks in sub-directories, implicit parents; opaque-xattr mode trusted/user/both; memory or db metadata store; each layer is built, resolved, verified and then 1-3 walker tasks check directories in drawn orders, half of the time looking names up before the directory listing is memoised: listing = overlayfs translation computed by a 40-line reference, listed iff lookupable (visible, hidden and absent names), whiteouts are 0/0 character devices, opaque xattrs per mode, inode numbers unique/stable/carry the layer base, state file valid JSON; finally the served layers are stacked by overlayfs rules and compared with applying the tars in order. non-trivial = a whiteout or an opaque directory was served; distinct = schedule hash x tar names x configuration",
		Run:  run,
		PanicIsViolation: true,
		HangIsViolation:  true,
		Components: map[string]string{"fs/layer/node.go, layer, reader, remote, caches": "real (instrumented copy)", "metadata/memory, db store": "real", "registry": "stub (honest)", "kernel FUSE / overlayfs": "stub: node interfaces driven in-process; overlay stacking rules re-implemented by the harness"},
		Assumptions: []string{"whiteout targets never begin with .wh. (reserved by the OCI image spec) and never name a directory of the same layer (excluded by the property)", "file content equality is C02's business; the stacking check compares names, kinds and content identity"},
	})
}
