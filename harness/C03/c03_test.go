// C03 — built blobs unpack like the input tar and index themselves consistently.
// Real: estargz.Build (entry sorting, parallel sub-blob workers, temp files, combine with offset
// rebasing), estargz.Writer (AppendTar / AppendTarLossLess / Close), gzip, zstd:chunked and
// external-TOC compressors, estargz.Open for the "documented rules" reading.
// Simulated: scheduling of the builder's worker goroutines and GOMAXPROCS (its degree of
// parallelism), the disk under its temp files (scheduling points and failures), the source reader
// (short-lived failures), cancellation of the build context.
// Oracle: decoders the builder does not share — compress/gzip multistream, the zstd frame decoder,
// archive/tar — plus SHA-256 recomputation; chunk offsets are followed by hand for gzip blobs.
package c03

import (
	"archive/tar"
	"bytes"
	"compress/gzip"
	"context"
	"errors"
	"fmt"
	"io"
	"sort"
	"strings"
	"testing"
	"time"

	"github.com/containerd/stargz-snapshotter/estargz"
	esgzexternaltoc "github.com/containerd/stargz-snapshotter/estargz/externaltoc"
	"github.com/containerd/stargz-snapshotter/estargz/zstdchunked"
	"github.com/containerd/stargz-snapshotter/zzverif/common"
	"github.com/klauspost/compress/zstd"
	digest "github.com/opencontainers/go-digest"
	"verifsim/hx"
	"verifsim/simrt"
)

func special(p string) bool {
	return p == estargz.TOCTarName || p == estargz.PrefetchLandmark || p == estargz.NoPrefetchLandmark
}

func gz(b []byte) []byte {
	var buf bytes.Buffer
	w, _ := gzip.NewWriterLevel(&buf, gzip.BestSpeed)
	w.Write(b)
	w.Close()
	return buf.Bytes()
}

func zs(b []byte) []byte {
	defer common.PinProcs()()
	var buf bytes.Buffer
	w, _ := zstd.NewWriter(&buf, zstd.WithEncoderConcurrency(1))
	w.Write(b)
	w.Close()
	return buf.Bytes()
}

func gunzipAll(b []byte) ([]byte, error) {
	r, err := gzip.NewReader(bytes.NewReader(b))
	if err != nil {
		return nil, err
	}
	return io.ReadAll(r)
}

func unzstdAll(b []byte) ([]byte, error) {
	r, err := zstd.NewReader(bytes.NewReader(b), zstd.WithDecoderConcurrency(1))
	if err != nil {
		return nil, err
	}
	defer r.Close()
	return io.ReadAll(r)
}

type zstdComp struct {
	*zstdchunked.Compressor
	*zstdchunked.Decompressor
}

// srcReader is the input the builder reads: a scheduling point on some reads, failures when drawn.
type srcReader struct {
	s        *simrt.Sim
	b        []byte
	faultDen int
	n        int
}

func (r *srcReader) ReadAt(p []byte, off int64) (int, error) {
	r.n++
	if t := simrt.Cur(); t != nil && r.n%6 == 1 {
		t.Yield("src.read")
		if r.faultDen > 0 && r.s.Tape.Draw("srcfault:"+t.Label, r.faultDen) == 0 {
			r.s.Stat("fault.source_read", 1)
			return 0, errors.New("injected source read error")
		}
	}
	if off >= int64(len(r.b)) {
		return 0, io.EOF
	}
	n := copy(p, r.b[off:])
	if n < len(p) {
		return n, io.EOF
	}
	return n, nil
}

// eqTree compares what two tar archives describe (out may carry the documented additions).
func eqTree(in, out *common.MNode, path string) string {
	ri, ro := in.Resolve(), out.Resolve()
	if ri.Type != ro.Type {
		return fmt.Sprintf("%q: type %q became %q", path, ri.Type, ro.Type)
	}
	if !in.Implicit && !out.Implicit {
		if ri.Mode != ro.Mode || ri.UID != ro.UID || ri.GID != ro.GID || ri.MTime != ro.MTime || ri.Uname != ro.Uname || ri.Gname != ro.Gname {
			return fmt.Sprintf("%q: mode/owner/mtime %o %d:%d %d became %o %d:%d %d", path, ri.Mode, ri.UID, ri.GID, ri.MTime, ro.Mode, ro.UID, ro.GID, ro.MTime)
		}
		if len(ri.Xattrs) != len(ro.Xattrs) {
			return fmt.Sprintf("%q: %d xattrs became %d", path, len(ri.Xattrs), len(ro.Xattrs))
		}
		for k, v := range ri.Xattrs {
			if ro.Xattrs[k] != v {
				return fmt.Sprintf("%q: xattr %q changed", path, k)
			}
		}
	}
	if in.Implicit != out.Implicit {
		return fmt.Sprintf("%q: explicit entry became implied or vice versa (in implicit=%v, out implicit=%v)", path, in.Implicit, out.Implicit)
	}
	switch ri.Type {
	case tar.TypeReg:
		if !bytes.Equal(ri.Data, ro.Data) {
			return fmt.Sprintf("%q: content changed (%d -> %d bytes)", path, len(ri.Data), len(ro.Data))
		}
	case tar.TypeSymlink:
		if ri.Link != ro.Link {
			return fmt.Sprintf("%q: link target %q became %q", path, ri.Link, ro.Link)
		}
	case tar.TypeChar, tar.TypeBlock:
		if ri.Major != ro.Major || ri.Minor != ro.Minor {
			return fmt.Sprintf("%q: device numbers changed", path)
		}
	}
	var names []string
	for n := range in.Children {
		names = append(names, n)
	}
	for n := range out.Children {
		if _, ok := in.Children[n]; !ok {
			if path == "" && special(n) {
				continue
			}
			return fmt.Sprintf("%q: entry %q appears only in the output", path, n)
		}
	}
	sort.Strings(names)
	for _, n := range names {
		oc, ok := out.Children[n]
		if !ok {
			if path == "" && special(n) {
				continue // an already converted input: its landmark and TOC are replaced
			}
			return fmt.Sprintf("%q: entry %q of the input is missing from the output", path, n)
		}
		if path == "" && special(n) {
			continue
		}
		if m := eqTree(in.Children[n], oc, strings.TrimPrefix(path+"/"+n, "/")); m != "" {
			return m
		}
	}
	return ""
}

func run(t *testing.T, tape *simrt.Tape) *hx.Outcome {
	out := &hx.Outcome{Counters: map[string]int{}}
	d := func(n int) int { return tape.Draw("gen", n) }
	c := func(n int) int { return tape.Draw("cfg", n) }
	cs := []int{8, 17, 64, 50}[c(4)]
	spec := common.GenTar(d, tape.Seed, common.GenOpts{ChunkSize: cs, MaxEntries: 12, OddNames: d(3) == 0, BigFiles: d(3) == 0, Dups: d(3) == 0})
	spec.OwnerNames = c(2) == 0
	tarB := spec.Bytes()
	// what follows the end-of-archive marker: nothing (Go), padding to a 10240-byte record (GNU tar's
	// default) or a stray block; readers ignore it, lossless mode has to give it back
	// (own stream, 0 = nothing: older replay tapes keep their meaning)
	switch tape.Draw("pad", 4) {
	case 1, 3:
		if r := len(tarB) % 10240; r != 0 {
			tarB = append(tarB, make([]byte, 10240-r)...)
		}
		out.Counters["record_padding"]++
	case 2:
		tarB = append(tarB, make([]byte, 512)...)
		out.Counters["record_padding"]++
	}
	model, err := common.Model(tarB)
	if err != nil {
		out.InfraErr = "model: " + err.Error()
		return out
	}
	api := []string{"build", "build", "build", "writer", "writer-lossless"}[c(5)]
	scheme := []string{"gzip", "gzip", "zstd", "external"}[c(4)]
	inputKind := []string{"plain", "plain", "gzip", "zstd", "estargz"}[c(5)]
	if api != "build" && (inputKind == "zstd" || inputKind == "estargz") {
		inputKind = "gzip" // the Writer API takes plain or gzip tars only, and refuses an existing TOC
	}
	input := tarB
	switch inputKind {
	case "gzip":
		input = gz(tarB)
	case "zstd":
		input = zs(tarB)
	case "estargz":
		b, err := common.BuildBlob(tarB, common.BuildCfg{ChunkSize: cs, Workers: 1})
		if err != nil {
			out.InfraErr = "prebuild: " + err.Error()
			return out
		}
		input = b.Blob
	}
	minCS := []int{0, 0, 3 * cs}[c(3)]
	level := []int{0, 1, 6, 9}[c(4)]
	var prio []string
	model.Walk(func(n *common.MNode) {
		if n.Type == tar.TypeReg && !special(n.Path) && d(3) == 0 && model.ExplicitParents(n.Path) {
			prio = append(prio, n.Path)
		}
	})
	calm := c(2) == 0
	srcDen, diskDen := 0, 0
	if !calm {
		srcDen = []int{0, 20}[c(2)]
		diskDen = []int{0, 25}[c(2)]
	}
	cancelAt := -1
	if !calm && c(3) == 0 {
		cancelAt = c(1 + []int{8, 64, 400}[c(3)])
	}
	var blob, extTOC []byte
	var tocDgst, diffID digest.Digest
	var buildErr error
	procs := 1
	res := simrt.Run(t, tape, simrt.Options{MaxSteps: 600000, HangAfter: time.Hour}, func(s *simrt.Sim, mt *simrt.Task) {
		procs = 1 + s.Tape.Draw("cfg", 6)
		s.Procs = procs
		s.UseDisk(simrt.DiskCfg{Yield: true, FaultDen: diskDen})
		src := &srcReader{s: s, b: input, faultDen: srcDen}
		var comp estargz.Compression
		var extc *esgzexternaltoc.GzipCompression
		switch scheme {
		case "zstd":
			comp = &zstdComp{&zstdchunked.Compressor{CompressionLevel: []zstd.EncoderLevel{zstd.SpeedFastest, zstd.SpeedDefault, zstd.SpeedBetterCompression, zstd.SpeedBestCompression}[c(4)]}, &zstdchunked.Decompressor{}}
		case "external":
			extc = esgzexternaltoc.NewGzipCompressionWithLevel(func() ([]byte, error) { return extTOC, nil }, level).(*esgzexternaltoc.GzipCompression)
			comp = extc
		}
		ctx, cancel := context.WithCancel(context.Background())
		defer cancel()
		worker := s.Go("builder", func(t *simrt.Task) {
			switch api {
			case "build":
				opts := []estargz.Option{estargz.WithChunkSize(cs), estargz.WithContext(ctx)}
				if minCS > 0 {
					opts = append(opts, estargz.WithMinChunkSize(minCS))
				}
				if len(prio) > 0 {
					opts = append(opts, estargz.WithPrioritizedFiles(prio))
				}
				if comp != nil {
					opts = append(opts, estargz.WithCompression(comp))
				} else {
					opts = append(opts, estargz.WithCompressionLevel(level))
				}
				b, err := estargz.Build(io.NewSectionReader(src, 0, int64(len(input))), opts...)
				if err != nil {
					buildErr = err
					return
				}
				blob, err = io.ReadAll(b)
				if err != nil {
					buildErr = err
					b.Close()
					return
				}
				if err := b.Close(); err != nil {
					buildErr = err
					return
				}
				tocDgst, diffID = b.TOCDigest(), b.DiffID()
			default:
				var buf bytes.Buffer
				var w *estargz.Writer
				if comp != nil {
					w = estargz.NewWriterWithCompressor(&buf, comp)
				} else {
					w = estargz.NewWriterLevel(&buf, level)
				}
				w.ChunkSize = cs
				w.MinChunkSize = minCS
				in := io.NewSectionReader(src, 0, int64(len(input)))
				var err error
				if api == "writer-lossless" {
					err = w.AppendTarLossLess(in)
				} else {
					err = w.AppendTar(in)
				}
				if err != nil {
					buildErr = err
					return
				}
				td, err := w.Close()
				if err != nil {
					buildErr = err
					return
				}
				blob, tocDgst, diffID = buf.Bytes(), td, digest.Digest(w.DiffID())
			}
			if extc != nil {
				var tb bytes.Buffer
				if _, err := extc.WriteTOCTo(&tb); err != nil {
					buildErr = fmt.Errorf("external TOC: %w", err)
					return
				}
				extTOC = tb.Bytes()
			}
		})
		if cancelAt >= 0 {
			s.Go("interrupt", func(t *simrt.Task) {
				t.Block("interrupt.wait", func() bool { return worker.Sched >= uint64(cancelAt) || worker.Done() })
				s.Stat("fault.cancel", 1)
				cancel()
			})
		}
		mt.Join(worker)
	})
	out.Res = res
	who := fmt.Sprintf("%s/%s input=%s cs=%d min=%d level=%d procs=%d prio=%d", api, scheme, inputKind, cs, minCS, level, procs, len(prio))
	out.Signature = fmt.Sprintf("%s/%s/%s/cs%d/min%d/lv%d/p%d/calm%v", api, scheme, inputKind, cs, minCS, level, procs, calm)
	out.Sample = map[string]any{"api": api, "scheme": scheme, "input": inputKind, "chunk": cs, "min_chunk": minCS, "procs": procs, "entries": len(spec.Entries), "prioritized": len(prio), "calm": calm, "error": buildErr != nil}
	fail := func(oracle, f string, a ...any) *hx.Outcome {
		out.Violations = append(out.Violations, simrt.Violation{Oracle: oracle, Msg: who + ": " + fmt.Sprintf(f, a...)})
		return out
	}
	if res.Verdict != "" && res.Verdict != "ok" || len(res.Violations) > 0 {
		return out
	}
	if buildErr != nil {
		out.Counters["build_errors_under_faults"]++
		if calm {
			return fail("build-failed", "the builder failed without any injected fault: %v", buildErr)
		}
		return out
	}
	out.Counters["blobs_checked"]++
	out.Nontrivial = true
	// (1) a valid stream of its compression format
	var u []byte
	if scheme == "zstd" {
		u, err = unzstdAll(blob)
	} else {
		u, err = gunzipAll(blob)
	}
	if err != nil {
		return fail("invalid-stream", "the blob does not decompress as a whole (%s): %v", scheme, err)
	}
	// (2) DiffID and uncompressed stream
	if got := digest.FromBytes(u); got != diffID {
		return fail("diffid", "reported DiffID %s, the decompressed stream hashes to %s", diffID, got)
	}
	// (3) the tar an eStargz-agnostic runtime unpacks
	om, err := common.Model(u)
	if err != nil {
		return fail("invalid-tar", "the decompressed stream does not unpack as a tar archive read front to back: %v", err)
	}
	if m := eqTree(model, om, ""); m != "" {
		return fail("unpacks-differently", "%s", m)
	}
	// documented additions: exactly one landmark, the TOC last where the format embeds it
	var order []string
	tr := tar.NewReader(bytes.NewReader(u))
	var tocJSON []byte
	for {
		h, err := tr.Next()
		if err != nil {
			break
		}
		n := strings.TrimPrefix(strings.TrimPrefix(h.Name, "./"), "/")
		order = append(order, n)
		if n == estargz.TOCTarName {
			tocJSON, _ = io.ReadAll(tr)
		}
	}
	lm := 0
	for _, n := range order {
		if n == estargz.PrefetchLandmark || n == estargz.NoPrefetchLandmark {
			lm++
		}
	}
	if api == "build" && lm != 1 {
		return fail("landmark", "the output tar carries %d landmark entries, exactly one is documented (entries: %v)", lm, order)
	}
	if scheme == "gzip" && api != "writer-lossless" {
		// (lossless output keeps the input's end-of-archive marker; the TOC entry follows it and is
		// invisible to a tar reader, which is what makes the unpacked result identical)
		if len(order) == 0 || order[len(order)-1] != estargz.TOCTarName {
			return fail("toc-not-last", "the TOC entry is not the last entry of the output tar (entries: %v)", order)
		}
	} else if inputKind != "estargz" && tocJSON != nil {
		return fail("toc-embedded", "a %s blob embeds a TOC tar entry", scheme)
	}
	// (4) TOC digest = SHA-256 of the TOC JSON
	switch scheme {
	case "gzip":
	case "external":
		tj, err := gunzipAll(extTOC)
		if err != nil {
			return fail("external-toc", "the external TOC is not a gzip stream: %v", err)
		}
		etr := tar.NewReader(bytes.NewReader(tj))
		h, err := etr.Next()
		if err != nil || h.Name != estargz.TOCTarName {
			return fail("external-toc", "the external TOC does not start with %s: %v", estargz.TOCTarName, err)
		}
		tocJSON, _ = io.ReadAll(etr)
	case "zstd":
		tocJSON = nil // recomputed through the footer below
	}
	if tocJSON != nil && digest.FromBytes(tocJSON) != tocDgst {
		return fail("toc-digest", "reported TOC digest %s, the TOC JSON hashes to %s", tocDgst, digest.FromBytes(tocJSON))
	}
	// (5) footer -> TOC -> chunks, by the documented rules
	var oo []estargz.OpenOption
	switch scheme {
	case "zstd":
		oo = append(oo, estargz.WithDecompressors(new(zstdchunked.Decompressor)))
	case "external":
		tb := extTOC
		oo = append(oo, estargz.WithDecompressors(esgzexternaltoc.NewGzipDecompressor(func() ([]byte, error) { return tb, nil })))
	}
	r, err := estargz.Open(io.NewSectionReader(bytes.NewReader(blob), 0, int64(len(blob))), oo...)
	if err != nil {
		return fail("does-not-open", "the blob does not open by footer and TOC: %v", err)
	}
	if r.TOCDigest() != tocDgst {
		return fail("toc-digest", "reported TOC digest %s, the TOC found through the footer hashes to %s", tocDgst, r.TOCDigest())
	}
	bad := ""
	// the TOC describes every entry with the metadata of its tar header
	model.Walk(func(n *common.MNode) {
		if bad != "" || n.Path == "" || n.Implicit || special(n.Path) {
			return
		}
		e, ok := r.Lookup(n.Path)
		if !ok {
			bad = fmt.Sprintf("%q is not in the TOC", n.Path)
			return
		}
		rn := n.Resolve()
		if e.UID != rn.UID || e.GID != rn.GID || e.Uname != rn.Uname || e.Gname != rn.Gname {
			bad = fmt.Sprintf("%q: tar header owner %d(%q):%d(%q), TOC says %d(%q):%d(%q)", n.Path, rn.UID, rn.Uname, rn.GID, rn.Gname, e.UID, e.Uname, e.GID, e.Gname)
			return
		}
		tm := int64(0) // docs/estargz.md: an empty modtime means zero
		if !e.ModTime().IsZero() {
			tm = e.ModTime().Unix()
		}
		if tm != rn.MTime {
			bad = fmt.Sprintf("%q: tar header mtime %d, TOC says %d", n.Path, rn.MTime, tm)
			return
		}
		if int64(e.Stat().Mode().Perm()) != rn.Mode&0777 {
			bad = fmt.Sprintf("%q: tar header permissions %o, TOC says %o", n.Path, rn.Mode&0777, e.Stat().Mode().Perm())
			return
		}
		switch rn.Type {
		case tar.TypeReg:
			if e.Size != int64(len(rn.Data)) {
				bad = fmt.Sprintf("%q: %d bytes in the tar, TOC size %d", n.Path, len(rn.Data), e.Size)
			}
		case tar.TypeSymlink:
			if e.LinkName != rn.Link {
				bad = fmt.Sprintf("%q: link target %q, TOC says %q", n.Path, rn.Link, e.LinkName)
			}
		case tar.TypeChar, tar.TypeBlock:
			if int64(e.DevMajor) != rn.Major || int64(e.DevMinor) != rn.Minor {
				bad = fmt.Sprintf("%q: device %d:%d, TOC says %d:%d", n.Path, rn.Major, rn.Minor, e.DevMajor, e.DevMinor)
			}
		}
		if bad == "" && len(e.Xattrs) != len(rn.Xattrs) {
			bad = fmt.Sprintf("%q: %d xattrs in the tar, %d in the TOC", n.Path, len(rn.Xattrs), len(e.Xattrs))
		}
		for k, v := range rn.Xattrs {
			if bad == "" && string(e.Xattrs[k]) != v {
				bad = fmt.Sprintf("%q: xattr %q differs between tar and TOC", n.Path, k)
			}
		}
	})
	if bad != "" {
		return fail("toc-metadata", "%s", bad)
	}
	model.Walk(func(n *common.MNode) {
		if bad != "" || n.Type != tar.TypeReg || n.Path == "" || special(n.Path) {
			return
		}
		sr, err := r.OpenFile(n.Path)
		if err != nil {
			bad = fmt.Sprintf("OpenFile(%q): %v", n.Path, err)
			return
		}
		b, err := io.ReadAll(io.NewSectionReader(sr, 0, int64(len(n.Data))+1))
		if err != nil || !bytes.Equal(b, n.Data) {
			bad = fmt.Sprintf("%q reads %d bytes through the TOC (err %v), the input has %d", n.Path, len(b), err, len(n.Data))
			return
		}
		for off := int64(0); off < int64(len(n.Data)); {
			ce, ok := r.ChunkEntryForOffset(n.Path, off)
			if !ok || ce.ChunkSize <= 0 || ce.ChunkOffset != off || off+ce.ChunkSize > int64(len(n.Data)) {
				bad = fmt.Sprintf("%q (%d bytes): no well-formed TOC chunk at file offset %d (found=%v %+v)", n.Path, len(n.Data), off, ok, ce)
				return
			}
			want := n.Data[off : off+ce.ChunkSize]
			if got := digest.FromBytes(want).String(); got != ce.ChunkDigest {
				bad = fmt.Sprintf("%q: TOC chunk [%d,%d) carries digest %s, the bytes hash to %s", n.Path, off, off+ce.ChunkSize, ce.ChunkDigest, got)
				return
			}
			if scheme != "zstd" {
				// by hand: a gzip member starts at offset; innerOffset bytes into it the chunk begins
				if ce.Offset < 0 || ce.Offset+2 > int64(len(blob)) || blob[ce.Offset] != 0x1f || blob[ce.Offset+1] != 0x8b {
					bad = fmt.Sprintf("%q: chunk at file offset %d: no gzip member starts at blob offset %d", n.Path, off, ce.Offset)
					return
				}
				zr, err := gzip.NewReader(bytes.NewReader(blob[ce.Offset:]))
				if err != nil {
					bad = fmt.Sprintf("%q: gzip member at %d: %v", n.Path, ce.Offset, err)
					return
				}
				zr.Multistream(false)
				mb, err := io.ReadAll(zr)
				if err != nil {
					bad = fmt.Sprintf("%q: gzip member at %d: %v", n.Path, ce.Offset, err)
					return
				}
				// the member's uncompressed bytes hold the chunk at innerOffset (0: the member starts with it)
				var got []byte
				if ce.InnerOffset >= 0 && ce.InnerOffset+ce.ChunkSize <= int64(len(mb)) {
					got = mb[ce.InnerOffset : ce.InnerOffset+ce.ChunkSize]
				}
				if !bytes.Equal(got, want) {
					bad = fmt.Sprintf("%q: chunk at file offset %d: the gzip member at blob offset %d (%d bytes, innerOffset %d) does not hold the chunk's bytes where the TOC says", n.Path, off, ce.Offset, len(mb), ce.InnerOffset)
					return
				}
			}
			off += ce.ChunkSize
		}
	})
	if bad != "" {
		return fail("toc-inconsistent", "%s", bad)
	}
	// (6) lossless: the input tar comes back byte for byte
	if api == "writer-lossless" {
		if scheme == "external" || scheme == "zstd" {
			if !bytes.Equal(u, tarB) {
				return fail("lossless", "the decompressed stream (%d bytes) is not the input tar (%d bytes)", len(u), len(tarB))
			}
		} else if !bytes.HasPrefix(u, tarB) {
			return fail("lossless", "the decompressed stream does not start with the %d bytes of the input tar", len(tarB))
		}
	}
	return out
}

func TestC03(t *testing.T) {
	hx.Main(t, hx.Prop{
		ID:               "C03",
		Rule:             "each run draws a tar (all entry types, names with ./ ../ / prefixes, odd names, implied parents, hard-link chains, duplicate names, sizes around chunk boundaries, many-chunk files, nothing / a 512-byte block / padding to a 10240-byte record after the end-of-archive marker), its form (plain, gzip, zstd, already eStargz), the API (Build x3, Writer.AppendTar, Writer.AppendTarLossLess), the scheme (gzip, zstd:chunked, external TOC), chunk size 8/17/50/64, min-chunk-size, compression level, prioritized files and GOMAXPROCS 1-6 (the builder's degree of parallelism); the builder's worker goroutines run under the seeded scheduler with scheduling points at every lock, errgroup spawn/wait, temp-file call and some source reads; half of the runs inject temp-file failures (1/25), source read failures (1/20) and a cancellation of the build context at a drawn point. A build that returns an error is accepted only when a fault was injected. Every blob that is returned is checked: decompresses as a whole with compress/gzip (multistream) or the zstd frame decoder; SHA-256 of that stream = reported DiffID; archive/tar of it describes the same tree as the input (types, modes, owners, mtimes, xattrs, device numbers, link targets, contents, last duplicate wins) plus exactly one landmark (Build) and, for gzip blobs, the TOC entry last; reported TOC digest = SHA-256 of the TOC JSON (embedded entry, external TOC blob, or found through the footer); estargz.Open by footer and TOC serves every file's bytes; every chunk entry carries the SHA-256 of its bytes and (gzip) a gzip member starts at its offset and holds the chunk at innerOffset; lossless mode returns the input tar byte for byte. non-trivial = a blob was returned and checked; distinct = schedule hash x configuration",
		Run:              run,
		PanicIsViolation: true,
		HangIsViolation:  true,
		Components: map[string]string{"estargz Build / Writer / sortEntries / closeWithCombine, gzip, zstdchunked, externaltoc compressors": "real (instrumented copy)", "scheduler of builder goroutines, GOMAXPROCS, temp-file disk, source reader, context cancellation": "simulated",
			"oracle decoders": "compress/gzip, archive/tar, klauspost zstd frame decoder, crypto/sha256; estargz.Open only for the footer->TOC->chunk reading the property names"},
		Assumptions: []string{"the zstd oracle decoder is the same library the builder's encoder comes from (no second zstd implementation is installed)", "legacy stargz output is not produced by any current API and is not covered"},
	})
}
