package c01

import (
	"bytes"
	"context"
	"fmt"
	"path/filepath"
	"testing"
	"time"

	"github.com/containerd/stargz-snapshotter/fs/config"
	"github.com/containerd/stargz-snapshotter/zzverif/common"
	"verifsim/hx"
	"verifsim/simreg"
	"verifsim/simrt"
)

// runDaemon is the campaign of C01 that goes through the real filesystem (fs/fs.go Mount): the
// mount-time decision — TOC digest label / skip-verify label / nothing, against the configuration
// (allow_no_verification, disable_verification) — and the reads through the mounts it made, with a
// Byzantine registry that serves one layer of the image altered (from the start or only after the
// first verified mount). A mount that carries the pinned TOC digest may succeed only if the layer's
// TOC hashes to it; a mount without a digest may succeed only where the configuration allows
// unverified layers; every read through a verified mount returns the original bytes or an error.
func runDaemon(t *testing.T, tape *simrt.Tape) *hx.Outcome {
	out := &hx.Outcome{Counters: map[string]int{"campaign.daemon": 1}}
	c := func(n int) int { return tape.Draw("cfg.daemon", n) }
	nLayers := 2 + c(2)
	img, err := common.GenImage(func(n int) int { return tape.Draw("gen.daemon", n) }, tape.Seed, nLayers, []int{8, 17, 64}[c(3)])
	if err != nil {
		out.InfraErr = "image: " + err.Error()
		return out
	}
	allowSkip, disable := c(2) == 0, c(6) == 0
	fcfg := config.Config{
		HTTPCacheType: []string{"memory", ""}[c(2)], FSCacheType: []string{"memory", ""}[c(2)], PrefetchTimeoutSec: 5,
		ResolveResultEntryTTLSec: 2 + c(30), AllowNoVerification: allowSkip, DisableVerification: disable, NoBackgroundFetch: c(3) == 0, NoPrefetch: c(4) == 0,
		BlobConfig:           config.BlobConfig{ChunkSize: []int64{16, 64, 50000}[c(3)], FetchTimeoutSec: 30, MaxRetries: 1, MinWaitMSec: 10, MaxWaitMSec: 100, ValidInterval: 60},
		DirectoryCacheConfig: config.DirectoryCacheConfig{MaxLRUCacheEntry: 1 + c(3), MaxCacheFds: 1 + c(3), SyncAdd: c(2) == 1, Direct: c(3) == 0},
	}
	// the altered layer: a bit flipped in its payload or in its TOC region (the footer is the last 51/64 bytes)
	bad := c(nLayers + 1) // == nLayers: no alteration (control)
	where := "none"
	var altered []byte
	if bad < nLayers {
		b := append([]byte(nil), img[bad].Built.Blob...)
		tail := 200
		if tail > len(b)-64 {
			tail = len(b) - 64
		}
		pos := c(len(b) - 64)
		where = "payload-or-toc"
		if c(2) == 0 && tail > 0 {
			pos = len(b) - 64 - 1 - c(tail) // most likely inside the TOC
			where = "toc-region"
		}
		b[pos] ^= 1 << c(8)
		altered = b
		if c(2) == 0 {
			// a different, perfectly valid eStargz blob of the same tree with other file contents (bit flips in
			// compressed data mostly end in decompression errors; this one decompresses and indexes cleanly)
			altered, where = img[bad].Evil.Blob, "evil-twin"
		}
	}
	late := altered != nil && c(3) == 0
	nMounters := 1 + c(3)
	root, cleanup := hx.RunDir()
	defer cleanup()
	mountsOK, mountsFailed, reads := 0, 0, 0
	res := simrt.Run(t, tape, simrt.Options{MaxSteps: 4000000, HangAfter: 3 * time.Hour}, func(s *simrt.Sim, mt *simrt.Task) {
		s.Procs = 1
		s.UseDisk(simrt.DiskCfg{Yield: true})
		reg := simreg.New(s, simreg.Config{Base: simreg.Personality(s.Tape.Draw("cfg.daemon", int(simreg.NumPersonalities)))})
		dm, err := common.NewDaemon(s, filepath.Join(root, "stargz"), img, fcfg, reg, nil, s.Tape.Draw("cfg.daemon", 2) == 1)
		if err != nil {
			s.Fail("harness", "NewFilesystem: %v", err)
			return
		}
		serveAltered := func() {
			if altered != nil {
				reg.Blobs[img[bad].Built.Digest.String()] = altered
				s.Event("the registry serves layer %d altered (%s)", bad, where)
			}
		}
		if !late {
			serveAltered()
		}
		ctx := context.Background()
		unverifiedUse := map[int]bool{}
		var ts []*simrt.Task
		for m := 0; m < nMounters; m++ {
			m := m
			ts = append(ts, s.Go(fmt.Sprintf("mounter%d", m), func(t *simrt.Task) {
				dr := func(n int) int { return s.Tape.Draw(t.Label, n) }
				for r := 0; r < 1+dr(3) && !s.Failed(); r++ {
					li := dr(nLayers)
					L := img[li]
					variant := []string{"ok", "ok", "ok-skip", "wrong-toc", "skip", "none"}[dr(6)]
					mp := filepath.Join(root, "mnt", fmt.Sprintf("m%dr%d", m, r), "fs")
					wasAltered := li == bad && reg.Blobs[L.Built.Digest.String()] != nil && !bytes.Equal(reg.Blobs[L.Built.Digest.String()], L.Built.Blob)
					err := dm.FS.Mount(ctx, mp, dm.Labels(li, variant))
					s.Event("m%d mount l%d labels=%s -> ok=%v", m, li, variant, err == nil)
					if err != nil {
						mountsFailed++
						if (variant == "ok" || variant == "ok-skip") && li != bad {
							s.Fail("mount-error", "Mount of unaltered layer %d with its pinned TOC digest failed against an honest transport: %v", li, err)
						}
						continue
					}
					mountsOK++
					if !disable && !late && wasAltered && where == "evil-twin" && (variant == "ok" || variant == "ok-skip") { // (late: the layer may have been resolved while the registry was still honest)
						s.Fail("mount-accepts-altered-toc", "Mount of layer %d with its pinned TOC digest (labels=%s) succeeded although the registry serves another blob, whose TOC does not hash to that digest", li, variant)
						return
					}
					if !disable {
						switch variant {
						case "wrong-toc":
							s.Fail("mount-accepts-wrong-digest", "Mount of layer %d succeeded although the TOC digest in its labels is not the digest of the layer's TOC", li)
							return
						case "none":
							s.Fail("mount-without-verification", "Mount of layer %d succeeded without a TOC digest and without the skip-verify label (disable_verification is off)", li)
							return
						case "skip":
							if !allowSkip {
								s.Fail("mount-without-verification", "Mount of layer %d with the skip-verify label succeeded although allow_no_verification is off", li)
								return
							}
						}
					}
					verified := (variant == "ok" || variant == "ok-skip") && !disable // a pinned digest is binding whatever other labels say
					if !verified {
						unverifiedUse[li] = true // chunks an unverified use caches on the shared layer stay cached (known finding)
					}
					if verified && late {
						serveAltered() // honest until the first verified mount, altered from then on
					}
					for o := 0; o < 1+dr(4) && !s.Failed() && len(L.Names) > 0; o++ {
						p := L.Names[dr(len(L.Names))]
						b, err := dm.ReadFile(mp, p, len(L.Files[p])+1)
						reads++
						if err == nil && verified && !bytes.Equal(b, L.Files[p]) {
							s.Fail("verified-wrong-bytes", "a mount made with the pinned TOC digest of layer %d returned bytes of %q that differ from the content that TOC describes [altered layer: %d (%s), served altered at mount time: %v, late: %v; unverified-use-before=%v]", li, p, bad, where, wasAltered, late, unverifiedUse[li])
							return
						}
						if err != nil && li != bad {
							s.Fail("read-error", "reading %q through a mount of unaltered layer %d failed against an honest transport: %v", p, li, err)
							return
						}
						if dr(3) == 0 {
							t.Sleep(time.Duration(1+dr(8)) * time.Second) // background fetch proceeds, cache entries expire
						}
					}
					if dr(3) != 0 {
						if err := dm.FS.Unmount(ctx, mp); err != nil {
							s.Fail("unmount-error", "Unmount of a live mount failed: %v", err)
							return
						}
					}
				}
			}))
		}
		mt.Join(ts...)
	})
	if res.Verdict == "panic" && altered != nil && len(res.Violations) == 0 {
		// a crash on altered bytes is property C04's business (as in the main campaign)
		out.Counters["panic_on_altered_input(C04)"]++
		res.Verdict = ""
		res.PanicInfo = ""
	}
	out.Res = res
	out.Counters["daemon.mounts_ok"] += mountsOK
	out.Counters["daemon.mounts_failed"] += mountsFailed
	out.Counters["daemon.reads"] += reads
	out.Nontrivial = mountsOK+mountsFailed > 1
	out.Signature = fmt.Sprintf("daemon/l%d/bad%d/%s/late%v/skip%v/dis%v/m%d/%s/%s", nLayers, bad, where, late, allowSkip, disable, nMounters, fcfg.HTTPCacheType, fcfg.FSCacheType)
	out.Sample = map[string]any{"campaign": "daemon", "layers": nLayers, "altered_layer": bad, "where": where, "late": late, "allow_no_verification": allowSkip, "disable_verification": disable, "mounts_ok": mountsOK, "mounts_failed": mountsFailed}
	return out
}
