// C01 — verified layers never return bytes that do not match the TOC-pinned digests.
// Real: layer.Resolver/layer (Verify, SkipVerify, Prefetch, BackgroundFetch), reader
// (VerifiableReader handshake, chunk verification, passthrough merge), remote blob, caches,
// both metadata stores, estargz / zstdchunked parsers. Stub: registry serving an ALTERED blob
// (Byzantine bytes, honest transport), kernel.
package c01

import (
	"archive/tar"
	"bytes"
	"compress/gzip"
	"context"
	"encoding/binary"
	"fmt"
	"hash/crc32"
	"io"
	"os"
	"path/filepath"
	"sort"
	"strings"
	"syscall"
	"testing"
	"time"

	"github.com/containerd/containerd/v2/pkg/reference"
	dbmetadata "github.com/containerd/stargz-snapshotter/cmd/containerd-stargz-grpc/db"
	"github.com/containerd/stargz-snapshotter/estargz"
	"github.com/containerd/stargz-snapshotter/fs/config"
	"github.com/containerd/stargz-snapshotter/fs/layer"
	"github.com/containerd/stargz-snapshotter/metadata"
	memorymetadata "github.com/containerd/stargz-snapshotter/metadata/memory"
	"github.com/containerd/stargz-snapshotter/task"
	"github.com/containerd/stargz-snapshotter/zzverif/common"
	digest "github.com/opencontainers/go-digest"
	ocispec "github.com/opencontainers/image-spec/specs-go/v1"
	bolt "go.etcd.io/bbolt"
	"verifsim/hx"
	"verifsim/simreg"
	"verifsim/simrt"
)

type member struct {
	off, end int64 // compressed byte range of the gzip member(s) holding this chunk's stream
	name     string
	chunkOff int64
	size     int64
}

// layout extracts the chunk/member layout of an honest blob with estargz.Open (outside the simulation).
func layout(blob []byte, model *common.MNode) (ms []member, tocOff int64, err error) {
	sr := io.NewSectionReader(bytes.NewReader(blob), 0, int64(len(blob)))
	tocOff, _, err = estargz.OpenFooter(sr)
	if err != nil {
		return nil, 0, err
	}
	r, err := estargz.Open(sr)
	if err != nil {
		return nil, 0, err
	}
	offs := map[int64]bool{tocOff: true}
	var regs []string
	model.Walk(func(n *common.MNode) {
		if n.Type == tar.TypeReg && len(n.Data) > 0 {
			regs = append(regs, n.Path)
		}
	})
	for _, p := range regs {
		for o := int64(0); ; {
			e, ok := r.ChunkEntryForOffset(p, o)
			if !ok {
				break
			}
			ms = append(ms, member{off: e.Offset, name: p, chunkOff: e.ChunkOffset, size: e.ChunkSize})
			offs[e.Offset] = true
			o = e.ChunkOffset + e.ChunkSize
			if e.ChunkSize == 0 {
				break
			}
		}
	}
	var sorted []int64
	for o := range offs {
		sorted = append(sorted, o)
	}
	sort.Slice(sorted, func(i, j int) bool { return sorted[i] < sorted[j] })
	for i := range ms {
		k := sort.Search(len(sorted), func(j int) bool { return sorted[j] > ms[i].off })
		ms[i].end = sorted[k]
	}
	return ms, tocOff, nil
}

type alteration struct {
	kind   string
	served []byte // nil = honest blob
	note   string
	where  string // "payload" | "toc" | "footer" | "cache"
}

// alter produces the blob the Byzantine registry serves.
func alter(d func(int) int, built *common.Built, ms []member, tocOff int64, model *common.MNode, stored bool) alteration {
	b := append([]byte(nil), built.Blob...)
	n := len(b)
	kinds := []string{"none", "bitflip-payload", "bitflip-toc", "bitflip-footer", "truncate", "swap-members", "fscache-tamper", "httpcache-tamper"}
	if stored && built.Cfg.Compression == 0 {
		kinds = append(kinds, "valid-member-different-payload", "valid-member-different-payload", "reserialised-toc", "reserialised-toc")
	}
	k := kinds[d(len(kinds))]
	switch k {
	case "none", "fscache-tamper", "httpcache-tamper":
		w := "cache"
		if k == "none" {
			w = "none"
		}
		return alteration{kind: k, where: w}
	case "bitflip-payload":
		if tocOff <= 0 {
			return alteration{kind: "none", where: "none"}
		}
		i := d(int(tocOff))
		b[i] ^= 1 << d(8)
		return alteration{kind: k, served: b, note: fmt.Sprintf("bit flipped at %d of %d", i, n), where: "payload"}
	case "bitflip-toc":
		foot := n - 51
		if built.Cfg.Compression == 1 {
			foot = n - 64
		}
		if int(tocOff) >= foot {
			return alteration{kind: "none", where: "none"}
		}
		i := int(tocOff) + d(foot-int(tocOff))
		b[i] ^= 1 << d(8)
		return alteration{kind: k, served: b, note: fmt.Sprintf("bit flipped at %d (TOC region)", i), where: "toc"}
	case "bitflip-footer":
		i := n - 1 - d(51)
		b[i] ^= 1 << d(8)
		return alteration{kind: k, served: b, note: fmt.Sprintf("bit flipped at %d (footer)", i), where: "footer"}
	case "truncate":
		cut := d(n)
		return alteration{kind: k, served: b[:cut], note: fmt.Sprintf("truncated to %d of %d", cut, n), where: "payload"}
	case "swap-members":
		if len(ms) < 2 {
			return alteration{kind: "none", where: "none"}
		}
		i, j := d(len(ms)), d(len(ms))
		a, c := ms[i], ms[j]
		if a.off == c.off {
			return alteration{kind: "none", where: "none"}
		}
		if a.off > c.off {
			a, c = c, a
		}
		var o []byte
		o = append(o, b[:a.off]...)
		o = append(o, b[c.off:c.end]...)
		o = append(o, b[a.end:c.off]...)
		o = append(o, b[a.off:a.end]...)
		o = append(o, b[c.end:]...)
		return alteration{kind: k, served: o, note: fmt.Sprintf("members [%d,%d) and [%d,%d) swapped", a.off, a.end, c.off, c.end), where: "payload"}
	case "valid-member-different-payload", "reserialised-toc":
		// gzip level 0: payload bytes are stored literally; change one payload byte of a chunk and
		// repair the member's CRC32 so that it still is a valid gzip member of identical length.
		if len(ms) == 0 {
			return alteration{kind: "none", where: "none"}
		}
		m := ms[d(len(ms))]
		data := model.Get(m.name).Resolve().Data[m.chunkOff : m.chunkOff+m.size]
		if len(data) == 0 {
			return alteration{kind: "none", where: "none"}
		}
		seg := b[m.off:m.end]
		at := bytes.Index(seg, data)
		if at < 0 {
			return alteration{kind: "none", where: "none"}
		}
		pos := int(m.off) + at + d(len(data))
		// decompress the member(s) in [off,end), flip the same payload byte, recompute the CRC of the
		// member that contains it: members are independent gzip streams laid end to end.
		if !repairMember(b, int(m.off), int(m.end), pos) {
			return alteration{kind: "none", where: "none"}
		}
		if k == "valid-member-different-payload" {
			return alteration{kind: k, served: b, note: fmt.Sprintf("payload byte %d of %q changed inside a still valid gzip member", pos, m.name), where: "payload"}
		}
		// additionally re-serialise the TOC so that the chunk digest matches the altered payload
		nb, ok := reserialiseTOC(b, tocOff, m, model)
		if !ok {
			return alteration{kind: "valid-member-different-payload", served: b, note: "payload changed (TOC rewrite failed)", where: "payload"}
		}
		return alteration{kind: k, served: nb, note: fmt.Sprintf("payload byte of %q changed and the TOC re-serialised with matching digests", m.name), where: "toc"}
	}
	return alteration{kind: "none", where: "none"}
}

// repairMember flips payload byte pos (which lies inside a stored deflate block of some gzip member in
// [off,end)) and rewrites that member's CRC32 trailer.
func repairMember(b []byte, off, end, pos int) bool {
	// walk the concatenated gzip members to find the one containing pos
	cur := off
	for cur < end {
		zr, err := gzip.NewReader(bytes.NewReader(b[cur:end]))
		if err != nil {
			return false
		}
		zr.Multistream(false)
		br := &countingReader{r: bytes.NewReader(b[cur:end])}
		zr2, err := gzip.NewReader(br)
		if err != nil {
			return false
		}
		zr2.Multistream(false)
		if _, err := io.Copy(io.Discard, zr2); err != nil {
			return false
		}
		// gzip.Reader reads through a bufio unless the source is an io.ByteReader; countingReader is
		// one, so br.n is the exact member length.
		mend := cur + br.n
		if pos >= cur && pos < mend-8 {
			b[pos] ^= 0x20
			zr3, err := gzip.NewReader(&errIgnoringReader{bytes.NewReader(b[cur:mend])})
			if err != nil {
				return false
			}
			zr3.Multistream(false)
			payload, _ := io.ReadAll(zr3) // checksum error expected; payload is complete
			binary.LittleEndian.PutUint32(b[mend-8:mend-4], crc32.ChecksumIEEE(payload))
			// confirm the member is valid again
			zr4, err := gzip.NewReader(bytes.NewReader(b[cur:mend]))
			if err != nil {
				return false
			}
			zr4.Multistream(false)
			if _, err := io.Copy(io.Discard, zr4); err != nil {
				return false
			}
			return true
		}
		cur = mend
		_ = zr
	}
	return false
}

type countingReader struct {
	r *bytes.Reader
	n int
}

func (c *countingReader) Read(p []byte) (int, error) { n, err := c.r.Read(p); c.n += n; return n, err }
func (c *countingReader) ReadByte() (byte, error) {
	b, err := c.r.ReadByte()
	if err == nil {
		c.n++
	}
	return b, err
}

type errIgnoringReader struct{ r *bytes.Reader }

func (e *errIgnoringReader) Read(p []byte) (int, error)  { return e.r.Read(p) }
func (e *errIgnoringReader) ReadByte() (byte, error)     { return e.r.ReadByte() }

// reserialiseTOC rewrites the TOC JSON so that the digests of the altered chunk (and file) match the
// altered payload, and re-creates the TOC member and the footer (same TOC offset).
func reserialiseTOC(b []byte, tocOff int64, m member, model *common.MNode) ([]byte, bool) {
	zr, err := gzip.NewReader(bytes.NewReader(b[tocOff : len(b)-51]))
	if err != nil {
		return nil, false
	}
	tr := tar.NewReader(zr)
	h, err := tr.Next()
	if err != nil {
		return nil, false
	}
	tocJSON, err := io.ReadAll(tr)
	if err != nil {
		return nil, false
	}
	// new digests from the altered blob itself
	sr := io.NewSectionReader(bytes.NewReader(b), 0, int64(len(b)))
	_ = sr
	orig := model.Get(m.name).Resolve().Data
	// find the altered payload by decompressing the member range
	var altered []byte
	{
		zr, err := gzip.NewReader(bytes.NewReader(b[m.off:m.end]))
		if err != nil {
			return nil, false
		}
		all, err := io.ReadAll(zr)
		if err != nil {
			return nil, false
		}
		// the chunk bytes differ from orig in exactly one byte: locate by length window
		want := orig[m.chunkOff : m.chunkOff+m.size]
		for i := 0; i+len(want) <= len(all); i++ {
			diff := 0
			for j := range want {
				if all[i+j] != want[j] {
					diff++
					if diff > 1 {
						break
					}
				}
			}
			if diff == 1 {
				altered = all[i : i+len(want)]
				break
			}
		}
	}
	if altered == nil {
		return nil, false
	}
	oldChunk := digest.FromBytes(orig[m.chunkOff : m.chunkOff+m.size]).String()
	newChunk := digest.FromBytes(altered).String()
	newFile := append(append(append([]byte(nil), orig[:m.chunkOff]...), altered...), orig[m.chunkOff+m.size:]...)
	oldFile := digest.FromBytes(orig).String()
	nj := bytes.ReplaceAll(tocJSON, []byte(oldChunk), []byte(newChunk))
	nj = bytes.ReplaceAll(nj, []byte(oldFile), []byte(digest.FromBytes(newFile).String()))
	if bytes.Equal(nj, tocJSON) {
		return nil, false
	}
	var buf bytes.Buffer
	zw, _ := gzip.NewWriterLevel(&buf, gzip.BestSpeed)
	tw := tar.NewWriter(zw)
	h.Size = int64(len(nj))
	tw.WriteHeader(h)
	tw.Write(nj)
	tw.Close()
	zw.Close()
	extra := []byte{'S', 'G', 22, 0}
	extra = append(extra, []byte(fmt.Sprintf("%016xSTARGZ", tocOff))...)
	out := append(append(append([]byte(nil), b[:tocOff]...), buf.Bytes()...), estargz.CreateGzipFooter(extra)...)
	return out, true
}

func run(t *testing.T, tape *simrt.Tape) *hx.Outcome {
	if tape.Draw("cfg.campaign", 4) == 0 { // own stream: older tapes replay unchanged
		return runDaemon(t, tape)
	}
	out := &hx.Outcome{Counters: map[string]int{}}
	d := func(n int) int { return tape.Draw("gen", n) }
	cs := []int{8, 17, 64}[d(3)]
	spec := common.GenTar(d, tape.Seed, common.GenOpts{ChunkSize: cs, MaxEntries: 10})
	tarBytes := spec.Bytes()
	model, err := common.Model(tarBytes)
	if err != nil {
		out.InfraErr = "model: " + err.Error()
		return out
	}
	stored := d(2) == 0
	bc := common.BuildCfg{ChunkSize: cs, Compression: d(3) / 2, Workers: 1 + d(2)}
	if stored {
		bc.Level = -100 // gzip.NoCompression requested through BuildBlob
		bc.Compression = 0
	}
	if d(4) == 0 {
		bc.MinChunkSize = 3 * cs
	}
	var regs []string
	model.Walk(func(n *common.MNode) {
		if n.Type == tar.TypeReg {
			regs = append(regs, n.Path)
		}
	})
	for _, p := range regs {
		if d(3) == 0 && model.ExplicitParents(p) {
			bc.Prioritized = append(bc.Prioritized, p)
		}
	}
	built, err := common.BuildBlob(tarBytes, bc)
	if err != nil {
		out.InfraErr = "build: " + err.Error()
		return out
	}
	var ms []member
	var tocOff int64
	if bc.Compression == 0 {
		ms, tocOff, err = layout(built.Blob, model)
		if err != nil {
			out.InfraErr = "layout: " + err.Error()
			return out
		}
	} else {
		tocOff = int64(len(built.Blob)) * 3 / 4 // zstd: only flips / truncation, regions approximate
	}
	alt := alter(func(n int) int { return tape.Draw("alt", n) }, built, ms, tocOff, model, stored)
	if bc.Compression == 1 && (alt.kind == "swap-members") {
		alt = alteration{kind: "none", where: "none"}
	}
	c := func(n int) int { return tape.Draw("cfg", n) }
	useDB := c(2) == 1
	allowSkip := c(3) == 0
	fcfg := config.Config{
		HTTPCacheType: []string{"memory", ""}[c(2)], FSCacheType: []string{"memory", ""}[c(2)],
		PrefetchTimeoutSec: 10, NoPrometheus: true, ResolveResultEntryTTLSec: 120,
		BlobConfig:           config.BlobConfig{ChunkSize: []int64{16, 64, 300, 50000}[c(4)], FetchTimeoutSec: 60, MaxRetries: 1, MinWaitMSec: 10, MaxWaitMSec: 200, ValidInterval: 60},
		DirectoryCacheConfig: config.DirectoryCacheConfig{MaxLRUCacheEntry: 1 + c(3), MaxCacheFds: 1 + c(3), SyncAdd: c(2) == 1, Direct: c(3) == 0},
	}
	if alt.kind == "fscache-tamper" {
		fcfg.FSCacheType = ""
	}
	if alt.kind == "httpcache-tamper" {
		fcfg.HTTPCacheType = ""
	}
	if c(3) == 0 && fcfg.FSCacheType == "" {
		fcfg.PassThrough = true
		fcfg.MergeBufferSize = int64([]int{cs, 4 * cs, 1 << 20}[c(3)])
		// chunk boundaries need not be aligned to the merge buffer (own stream: older tapes replay unchanged)
		switch tape.Draw("cfg.mbuf", 4) {
		case 1:
			fcfg.MergeBufferSize++
		case 2:
			if fcfg.MergeBufferSize > 2 {
				fcfg.MergeBufferSize--
			}
		case 3:
			fcfg.MergeBufferSize += int64(cs/2 + 1)
		}
		fcfg.MergeWorkerCount = 1 + c(3)
		if tape.Draw("cfg.mwc", 6) == 0 {
			fcfg.MergeWorkerCount = 0 // unset (nothing applies the config struct's default tags)
		}
	}
	nTasks := 1 + c(3)
	root, cleanup := hx.RunDir()
	defer cleanup()
	var bdb *bolt.DB
	store := metadata.Store(memorymetadata.NewReader)
	if useDB {
		bdb, err = bolt.Open(filepath.Join(root, "metadata.db"), 0600, &bolt.Options{NoSync: true, InitialMmapSize: 64 << 20})
		if err != nil {
			out.InfraErr = "bolt: " + err.Error()
			return out
		}
		defer bdb.Close()
		store = func(sr *io.SectionReader, opts ...metadata.Option) (metadata.Reader, error) {
			return dbmetadata.NewReader(bdb, sr, opts...)
		}
	}
	wrongDigest := digest.FromString("not the toc " + fmt.Sprint(tape.Seed))
	verifiedOK, readsOK, readsErr, mountsFailed := 0, 0, 0, 0
	tampered := false
	late := alt.served != nil && tape.Draw("cfg.late", 3) == 0 // own stream: older tapes replay unchanged
	res := simrt.Run(t, tape, simrt.Options{MaxSteps: 4000000, HangAfter: 3 * time.Hour}, func(s *simrt.Sim, mt *simrt.Task) {
		s.Procs = 1 + s.Tape.Draw("cfg", 3)
		s.UseDisk(simrt.DiskCfg{Yield: true})
		reg := simreg.New(s, simreg.Config{Base: simreg.Personality(s.Tape.Draw("cfg", int(simreg.NumPersonalities))), ReadYield: s.Tape.Draw("cfg", 2) == 1})
		served := built.Blob
		if alt.served != nil && !late {
			served = alt.served
		}
		reg.Blobs[built.Digest.String()] = served
		// a registry (or mirror) that is honest until the layer has been verified and mounted, and serves the
		// altered blob from then on: whatever is fetched later (on demand, by the background fetch, by a
		// reader that opens the blob again) must still be checked against the TOC pinned at mount time
		switched := false
		goLate := func() {
			if late && !switched {
				switched = true
				reg.Blobs[built.Digest.String()] = alt.served
				s.Stat("late-alteration", 1)
				s.Event("the registry starts serving the altered blob")
			}
		}
		tm := task.NewBackgroundTaskManager(2, 5*time.Second)
		rroot := filepath.Join(root, "r")
		rs, err := layer.NewResolver(rroot, tm, fcfg, nil, store, layer.OverlayOpaqueAll, nil)
		if err != nil {
			s.Fail("harness", "NewResolver: %v", err)
			return
		}
		refspec, _ := reference.Parse("reg.example/repo/img:latest")
		desc := ocispec.Descriptor{Digest: built.Digest, Size: int64(len(served)), MediaType: ocispec.MediaTypeImageLayerGzip}
		hosts := common.Hosts(reg, 30*time.Second, nil, s.Tape.Draw("cfg", 2) == 1)
		var decisions []string // decisions already taken on the cached layer, in order
		// what an unverified use of the cached layer may have put into the chunk cache (the known finding):
		// files it read, and everything once it ran a background fetch or a prefetch
		skipRead := map[string]bool{}
		skipCachedAll := false
		tamper := func(t *simrt.Task) {
			sub := "fscache"
			if alt.kind == "httpcache-tamper" {
				sub = "httpcache"
			}
			var files []string
			filepath.Walk(filepath.Join(rroot, sub), func(p string, fi os.FileInfo, err error) error {
				if err == nil && fi.Mode().IsRegular() && fi.Size() > 0 && !strings.Contains(p, "/wip/") {
					files = append(files, p)
				}
				return nil
			})
			sort.Strings(files)
			if len(files) == 0 {
				return
			}
			// names are unseeded temp/hash paths: choose by index only, never log the path
			f := files[s.Tape.Draw(t.Label, len(files))]
			b, err := os.ReadFile(f)
			if err != nil || len(b) == 0 {
				return
			}
			b[s.Tape.Draw(t.Label, len(b))] ^= 0x40
			if os.WriteFile(f, b, 0600) == nil {
				tampered = true
				s.Event("tampered one %s entry", sub)
				s.Stat("fault.cache_tamper."+sub, 1)
			}
		}
		paths := model.Paths()
		var ts []*simrt.Task
		for k := 0; k < nTasks; k++ {
			k := k
			ts = append(ts, s.Go(fmt.Sprintf("mounter%d", k), func(t *simrt.Task) {
				dr := func(n int) int { return s.Tape.Draw(t.Label, n) }
				attempts := 1 + dr(3)
				for a := 0; a < attempts && !s.Failed(); a++ {
					var l layer.Layer
					var err error
					func() {
						// a crash on altered bytes is property C04's business; here it counts as a failed mount
						defer func() {
							if r := recover(); r != nil {
								err = fmt.Errorf("panic: %v", r)
								out.Counters["panic_on_altered_input(C04)"]++
							}
						}()
						l, err = rs.Resolve(context.Background(), hosts, refspec, desc)
					}()
					if err != nil {
						mountsFailed++
						if alt.kind == "none" {
							s.Fail("resolve-error", "Resolve of the unaltered blob failed: %v", err)
							return
						}
						s.Event("m%d resolve failed", k)
						continue
					}
					// like fs.Mount: prefetch and background fetch start as soon as the layer is resolved,
					// concurrently with the verification decision
					psize := int64(dr(len(served) + 1))
					bgs := []*simrt.Task{s.Go(fmt.Sprintf("%s/prefetch%d", t.Label, a), func(*simrt.Task) { l.Prefetch(psize) })}
					if dr(2) == 0 {
						bgs = append(bgs, s.Go(fmt.Sprintf("%s/bgfetch%d", t.Label, a), func(*simrt.Task) { l.BackgroundFetch() }))
					}
					// the decision lands anywhere in the progress of the prefetch / background tasks: wait
					// (blocked on a predicate the scheduler evaluates, so that simulated time can pass) until one of them has passed a drawn number of scheduling
					// points, or until the registry has seen a drawn number of further requests (the
					// decision then races with a fetch in flight)
					bgRunning := func() bool {
						for _, b := range bgs {
							if !b.Done() {
								return true
							}
						}
						return false
					}
					switch dr(4) {
					case 0:
					case 1:
						n0, k := len(reg.Log), 1+dr(4)
						t.Block("before-decision", func() bool { return len(reg.Log) >= n0+k || !bgRunning() })
					default:
						bg := bgs[dr(len(bgs))]
						target := uint64(dr(1 + []int{4, 16, 64, 256, 1024}[dr(5)]))
						t.Block("before-decision", func() bool { return bg.Sched >= target || bg.Done() })
					}
					prior := strings.Join(decisions, ",")
					var mode string
					switch x := dr(10); {
					case x < 6:
						mode = "verify"
						err = l.Verify(built.TOCDigest)
					case x < 8:
						mode = "verify-wrong"
						err = l.Verify(wrongDigest)
					default:
						if allowSkip {
							mode = "skip"
							l.SkipVerify()
							err = nil
							if len(bgs) > 1 {
								skipCachedAll = true // background fetch caches every chunk
							}
							for _, pf := range bc.Prioritized {
								skipRead[model.Get(pf).Resolve().Path] = true // prefetch caches the prioritized files
							}
						} else {
							mode = "verify"
							err = l.Verify(built.TOCDigest)
						}
					}
					decisions = append(decisions, mode)
					s.Event("m%d attempt %d %s -> ok=%v", k, a, mode, err == nil)
					if mode == "verify-wrong" {
						if err == nil {
							s.Fail("verify-accepts-wrong-digest", "Verify with a digest the TOC does not hash to returned nil [alteration=%s; prior decisions on this cached layer: %q]", alt.kind, prior)
							return
						}
						l.Done()
						continue
					}
					if err != nil {
						mountsFailed++
						if alt.kind == "none" || (alt.kind == "fscache-tamper") || (alt.kind == "httpcache-tamper" && !tampered) {
							s.Fail("verify-error", "Verify with the right digest failed on an unaltered blob: %v [prior=%q]", err, prior)
							return
						}
						l.Done()
						continue
					}
					if mode == "skip" {
						// unverified by request: nothing is promised; just exercise it
						if rn, err := l.RootNode(0); err == nil {
							tree := common.NewTree(rn)
							for i := 0; i < 1+dr(3) && len(paths) > 0; i++ {
								p := paths[dr(len(paths))]
								if nd, _, errno := tree.Lookup(p); errno == 0 && model.Get(p).Resolve().Type == tar.TypeReg {
									if fh, errno := tree.Open(nd); errno == 0 {
										skipRead[model.Get(p).Resolve().Path] = true
										tree.Read(fh, 0, len(model.Get(p).Resolve().Data)+1) // unverified read: fills the caches
										tree.Release(fh)
									}
								}
							}
						}
						l.Done()
						continue
					}
					verifiedOK++
					goLate()
					rn, err := l.RootNode(0)
					if err != nil {
						l.Done()
						continue
					}
					tree := common.NewTree(rn)
					nops := 1 + dr(6)
					// half of the mounts end with a sweep: once the prefetch / background tasks of this mount
					// have finished, every entry is looked up and every file read in full (nothing they
					// cached may be served unverified by a later read)
					lateSweep := dr(2) == 0
					sweep := false
					for i := 0; i < nops+len(paths) && !s.Failed(); i++ {
						if i == nops {
							if !lateSweep {
								break
							}
							t.Join(bgs...)
							sweep = true
						}
						if (alt.kind == "fscache-tamper" || alt.kind == "httpcache-tamper") && !sweep && dr(3) == 0 {
							tamper(t)
						}
						if len(paths) == 0 {
							break
						}
						p := paths[0]
						if !sweep {
							p = paths[dr(len(paths))]
						}
						if sweep {
							p = paths[i-nops]
						}
						m := model.Get(p)
						nd, eo, errno := tree.Lookup(p)
						if errno != 0 {
							s.Fail("verified-wrong-metadata", "on a layer verified with the pinned TOC digest Lookup(%q) failed (%v) although the pinned TOC has it [alteration=%s: %s; prior=%q]", p, errno, alt.kind, alt.note, prior)
							return
						}
						rm := m.Resolve()
						if want := common.TarModeToSys(rm.Type, rm.Mode); eo.Attr.Mode != want {
							s.Fail("verified-wrong-metadata", "verified layer: %q has mode %#o, the pinned TOC says %#o [alteration=%s: %s; prior=%q]", p, eo.Attr.Mode, want, alt.kind, alt.note, prior)
							return
						}
						if rm.Type != tar.TypeReg {
							continue
						}
						if eo.Attr.Size != uint64(len(rm.Data)) {
							s.Fail("verified-wrong-metadata", "verified layer: %q has size %d, the pinned TOC says %d [alteration=%s: %s; prior=%q]", p, eo.Attr.Size, len(rm.Data), alt.kind, alt.note, prior)
							return
						}
						fh, errno := tree.Open(nd)
						if errno != 0 {
							readsErr++
							if alt.kind == "none" {
								s.Fail("open-error", "Open(%q) failed on an unaltered blob: %v", p, errno)
								return
							}
							continue
						}
						for r := 0; (r == 0 || !sweep && r < 1+dr(3)) && !s.Failed(); r++ {
							sz := len(rm.Data)
							off, ln := 0, sz+1
							if !sweep && dr(2) == 0 && sz > 0 {
								off = dr(sz)
								ln = 1 + dr(sz-off+cs)
							}
							b, errno, pt := tree.Read(fh, int64(off), ln)
							if errno != 0 {
								readsErr++
								s.Event("m%d read %q off=%d -> EIO", k, p, off)
								if alt.kind == "none" {
									st, _ := tree.StateJSON()
									s.Fail("read-error", "Read(%q) failed on an unaltered blob: %v %s", p, errno, st)
									return
								}
								continue
							}
							want := []byte{}
							if off < sz {
								end := off + ln
								if end > sz {
									end = sz
								}
								want = rm.Data[off:end]
							}
							if !bytes.Equal(b, want) {
								s.Fail("verified-wrong-bytes", "a layer verified with the pinned TOC digest returned bytes of %q [off=%d,len=%d] that differ from the content the pinned TOC describes (passthrough=%v) [alteration=%s: %s; tampered=%v; unverified-use-before=%v; decisions taken on this cached layer so far: %q]", p, off, ln, pt, alt.kind, alt.note, tampered, strings.Contains(strings.Join(decisions, ","), "skip") && (skipCachedAll || skipRead[rm.Path]), strings.Join(decisions, ","))
								return
							}
							readsOK++
							t.Yield("between-reads")
						}
						tree.Release(fh)
					}
					if dr(2) == 0 {
						l.Done()
					} else {
						l.Close()
					}
				}
			}))
		}
		mt.Join(ts...)
	})
	out.Res = res
	if res.Verdict == "panic" && alt.kind != "none" && len(res.Violations) == 0 {
		// a crash of a prefetch / background task on altered bytes is property C04's business (its
		// known finding: the TOC's chunk size used as an allocation size); here the run just ends
		out.Counters["panic_on_altered_input(C04)"]++
		res.Verdict = ""
		res.PanicInfo = ""
	}
	out.Counters["alt."+alt.kind]++
	out.Counters["verified_mounts"] += verifiedOK
	out.Counters["failed_mounts"] += mountsFailed
	out.Counters["reads_ok"] += readsOK
	out.Counters["reads_error"] += readsErr
	if tampered {
		out.Counters["cache_tampered_runs"]++
	}
	// non-trivial: an altered blob (or cache) met a verified mount that read something, or a failed mount
	out.Nontrivial = alt.kind != "none" && (readsOK+readsErr > 0 || mountsFailed > 0)
	out.Signature = fmt.Sprintf("%s/e%d/cs%d/m%d/z%d/st%v/db%v/skip%v/%s/%s/pt%v/t%d", alt.kind, len(spec.Entries), cs, bc.MinChunkSize, bc.Compression, stored, useDB, allowSkip,
		fcfg.HTTPCacheType, fcfg.FSCacheType, fcfg.PassThrough, nTasks)
	out.Sample = map[string]any{"alteration": alt.kind, "note": alt.note, "entries": len(spec.Entries), "build_chunk": cs, "min_chunk": bc.MinChunkSize, "zstd": bc.Compression == 1,
		"gzip_stored": stored, "store_db": useDB, "allow_skip_verify": allowSkip, "http_cache": fcfg.HTTPCacheType, "fs_cache": fcfg.FSCacheType, "passthrough": fcfg.PassThrough,
		"mounters": nTasks, "verified_mounts": verifiedOK, "failed_mounts": mountsFailed, "reads_ok": readsOK, "reads_error": readsErr, "log_tail": tail(res.LogTail, 20)}
	return out
}

func tail(l []string, n int) []string {
	var o []string
	for _, x := range l {
		if !strings.Contains(x, " http ") {
			o = append(o, x)
		}
	}
	if len(o) > n {
		o = o[len(o)-n:]
	}
	return o
}

var _ = syscall.EIO

func TestC01(t *testing.T) {
	hx.Main(t, hx.Prop{
		ID:   "C01",
		Rule: "each run builds an eStargz blob (gzip stored/compressed, zstd:chunked; chunk 8/17/64; min-chunk-size; prioritized files) from a drawn tar and lets a Byzantine registry serve one alteration of it: none (control), bit flip in payload / TOC / footer, truncation, two members swapped, a member replaced by a valid gzip member with a different payload (CRC repaired), the same plus a re-serialised TOC whose digests match the altered payload, or a byte changed in a file of the fscache / httpcache directory between reads; 1-3 mounter tasks then run 1-3 mount attempts each on the (cached) layer: Resolve, start Prefetch/BackgroundFetch concurrently, decide Verify(pinned digest) / Verify(other digest) / SkipVerify (a third of the runs allow it), then lookups and reads incl. warm re-reads, passthrough on/off, both metadata stores, memory/directory caches. In a third of the altered runs the registry is honest until the first verified mount and serves the altered blob only from then on (late alteration). A quarter of the runs is the 'daemon' campaign through the real filesystem (fs/fs.go Mount): an image of 2-3 layers, one of them served altered (bit flip in payload or TOC region, or an 'evil twin': another valid eStargz blob of the same tree with other contents), from the start or late; 1-3 mounter tasks mount with labels carrying the right TOC digest, the right digest plus the skip-verify label, another digest, only the skip-verify label, or nothing, under drawn allow_no_verification / disable_verification; a mount with a digest other than the TOC's, a mount without digest where the configuration does not allow it, and a mount pinned to the right digest while the registry serves the evil twin from the start must fail; reads through a mount made with the pinned digest return the original bytes or an error. non-trivial = altered blob or cache and at least one verified read attempt or failed mount; distinct = schedule hash x configuration",
		Run:  run,
		HangIsViolation: true,
		Components: map[string]string{"fs/layer, fs/reader (VerifiableReader), fs/remote, cache, task": "real (instrumented copy)", "metadata/memory, db store on bolt": "real", "estargz/zstdchunked parsers": "real", "registry": "stub: honest transport, altered bytes", "kernel FUSE": "stub (node interfaces; passthrough emulated by pread)"},
		Assumptions: []string{"SHA-256 collisions are not considered", "external-TOC blobs are not generated in this harness", "structural alterations (swap, valid-member replacement, TOC re-serialisation) are generated for gzip blobs only; zstd:chunked blobs get bit flips and truncation"},
	})
}
