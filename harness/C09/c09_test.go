// C09 — after a crash at any point the snapshotter restarts consistent and re-mounted.
// Real: snapshot.NewSnapshotter (incl. restoreRemoteSnapshot) with containerd's storage on a real
// bolt file and real directories. Stub: backend filesystem (recording; restore-time Mount outcomes
// drawn), kernel mount table (stale mounts survive the crash). For each sampled history EVERY
// crash point (before/after each disk call, each backend call, each API call) is restarted under
// the three restart configurations.
package c09

import (
	"context"
	"fmt"
	"os"
	"path/filepath"
	"sort"
	"strings"
	"testing"
	"time"

	"github.com/containerd/containerd/v2/core/snapshots"
	"github.com/containerd/stargz-snapshotter/snapshot"
	"github.com/containerd/stargz-snapshotter/zzverif/common"
	bolt "go.etcd.io/bbolt"
	"verifsim/hx"
	"verifsim/simrt"
)

func presize(root string) error {
	db, err := bolt.Open(filepath.Join(root, "metadata.db"), 0600, &bolt.Options{NoSync: true})
	if err != nil {
		return err
	}
	defer db.Close()
	if err := db.Update(func(tx *bolt.Tx) error {
		b, err := tx.CreateBucket([]byte("verif-filler"))
		if err != nil {
			return err
		}
		return b.Put([]byte("k"), make([]byte, 128<<10))
	}); err != nil {
		return err
	}
	return db.Update(func(tx *bolt.Tx) error { return tx.DeleteBucket([]byte("verif-filler")) })
}

type fileImg struct {
	rel   string
	isDir bool
	mode  os.FileMode
	data  []byte
}

// image is what survives the death of the process: the directory tree (incl. metadata.db as last
// committed) and the kernel's mount table; plus what the clients had been told by then.
type image struct {
	point      string
	files      []fileImg
	liveMounts map[string]map[string]string // relative mountpoint -> labels
	acked      []string                     // names acknowledged as existing
	removeSeen map[string]bool              // names on which Remove had been invoked
	dirs       map[string]string            // name -> relative dir
}

func takeImage(root, point string, fs *common.RecFS, drv *common.SnapDriver, removeSeen map[string]bool) *image {
	im := &image{point: point, liveMounts: map[string]map[string]string{}, removeSeen: map[string]bool{}, dirs: map[string]string{}}
	filepath.Walk(root, func(p string, fi os.FileInfo, err error) error {
		if err != nil || p == root {
			return nil
		}
		rel, _ := filepath.Rel(root, p)
		f := fileImg{rel: rel, isDir: fi.IsDir(), mode: fi.Mode().Perm()}
		if !fi.IsDir() {
			f.data, _ = os.ReadFile(p)
		}
		im.files = append(im.files, f)
		return nil
	})
	for mp, l := range fs.Live {
		rel, _ := filepath.Rel(root, mp)
		cp := map[string]string{}
		for k, v := range l {
			cp[k] = v
		}
		im.liveMounts[rel] = cp
	}
	if drv != nil {
		im.acked = append(im.acked, drv.Acked...)
		for n, d := range drv.Dirs {
			rel, _ := filepath.Rel(root, d)
			im.dirs[n] = rel
		}
	}
	for k := range removeSeen {
		im.removeSeen[k] = true
	}
	return im
}

func (im *image) restore(root string) error {
	for _, f := range im.files {
		p := filepath.Join(root, f.rel)
		if f.isDir {
			if err := os.MkdirAll(p, 0700|f.mode); err != nil {
				return err
			}
			continue
		}
		if err := os.MkdirAll(filepath.Dir(p), 0700); err != nil {
			return err
		}
		if err := os.WriteFile(p, f.data, 0600); err != nil {
			return err
		}
	}
	return nil
}

func run(t *testing.T, tape *simrt.Tape) *hx.Outcome {
	out := &hx.Outcome{Counters: map[string]int{}}
	c := func(n int) int { return tape.Draw("cfg", n) }
	failDen := []int{0, 3, 8}[c(3)]
	async := c(2) == 1
	nOps := 2 + c(9)
	restoreFailDen := []int{0, 2, 4}[c(3)]
	base, cleanup := hx.RunDir()
	defer cleanup()
	root := filepath.Join(base, "live")
	os.MkdirAll(root, 0700)
	if err := presize(root); err != nil {
		out.InfraErr = "presize: " + err.Error()
		return out
	}
	var images []*image
	restarts, remounted := 0, 0
	res := simrt.Run(t, tape, simrt.Options{MaxSteps: 400000, HangAfter: time.Hour}, func(s *simrt.Sim, mt *simrt.Task) {
		fs := common.NewRecFS(s, "fs0", failDen)
		fs.Dirty = s.Tape.Draw("cfg", 2) == 1
		snapshot.VerifLiveMounts = fs.LiveMounts
		snapshot.VerifForceUnmount = fs.ForceUnmount
		var drv *common.SnapDriver
		removeSeen := map[string]bool{}
		crash := func(point string) {
			if len(images) < 90 {
				images = append(images, takeImage(root, point, fs, drv, removeSeen))
			}
		}
		s.OSHook = func(t *simrt.Task, op string, after bool, paths []string) error {
			if len(paths) > 0 && strings.HasPrefix(paths[0], root) && op != "Stat" && op != "Open" && op != "ReadDir" {
				if after {
					crash("after os." + op)
				} else {
					crash("before os." + op)
				}
			}
			return nil
		}
		s.SplitRemoveAll = true
		fs.Hook = crash
		ctx := context.Background()
		var opts []snapshot.Opt
		if async {
			opts = append(opts, snapshot.AsynchronousRemove)
		}
		sn, err := snapshot.NewSnapshotter(ctx, root, fs, opts...)
		if err != nil {
			s.Fail("harness", "NewSnapshotter: %v", err)
			return
		}
		drv = common.NewSnapDriver(s, sn, fs, root)
		// ---- the history (one client; concurrency is C08's subject) ----
		var active, committed []string
		dr := func(n int) int { return s.Tape.Draw("hist", n) }
		pick := func() string {
			if len(committed) == 0 || dr(4) == 0 {
				return ""
			}
			return committed[dr(len(committed))]
		}
		for i := 0; i < nOps && !s.Failed(); i++ {
			key := fmt.Sprintf("k%d", i)
			crash("between calls")
			switch op := dr(10); {
			case op < 4:
				target := fmt.Sprintf("layer%d", dr(3))
				drv.PrepareTarget(ctx, mt, key, pick(), target)
				if _, err := sn.Stat(ctx, target); err == nil && !contains(committed, target) {
					committed = append(committed, target)
				}
				if _, err := sn.Stat(ctx, key); err == nil {
					active = append(active, key)
				}
			case op == 4 || op == 5:
				drv.Create(ctx, mt, op == 5, key, pick())
				if _, err := sn.Stat(ctx, key); err == nil {
					active = append(active, key)
				}
			case op == 6 && len(active) > 0:
				a := active[dr(len(active))]
				name := fmt.Sprintf("n%d", i)
				drv.Commit(ctx, mt, name, a)
				if _, err := sn.Stat(ctx, name); err == nil {
					committed = append(committed, name)
				}
			case op == 7 || op == 8:
				all := append(append([]string{}, active...), committed...)
				if len(all) > 0 {
					x := all[dr(len(all))]
					removeSeen[x] = true
					drv.Remove(ctx, mt, x)
				}
			default:
				sn.(snapshots.Cleaner).Cleanup(ctx)
			}
		}
		crash("end of history")
		if s.Failed() {
			return
		}
		fs.Hook = nil
		s.OSHook = nil
		// ---- every crash image x every restart configuration ----
		for ii, im := range images {
			for mode := 0; mode < 3 && !s.Failed(); mode++ {
				restarts++
				r2 := filepath.Join(base, fmt.Sprintf("r%d-%d", ii, mode))
				if err := im.restore(r2); err != nil {
					s.Fail("harness", "restore image: %v", err)
					return
				}
				fs2 := common.NewRecFS(s, "fs1", restoreFailDen)
				for rel, l := range im.liveMounts {
					fs2.Live[filepath.Join(r2, rel)] = l // stale mounts left by the dead process
				}
				stale := len(fs2.Live)
				snapshot.VerifLiveMounts = fs2.LiveMounts
				snapshot.VerifForceUnmount = fs2.ForceUnmount
				var o2 []snapshot.Opt
				allowInvalid, noRestore := mode == 1, mode == 2
				if allowInvalid {
					o2 = append(o2, snapshot.AllowInvalidMountsOnRestart)
				}
				if noRestore {
					o2 = append(o2, snapshot.NoRestore)
				}
				sn2, err := snapshot.NewSnapshotter(ctx, r2, fs2, o2...)
				mountFailed := false
				for _, e := range fs2.Events {
					if e.Op == "mount" && !e.OK {
						mountFailed = true
					}
				}
				where := fmt.Sprintf("crash %q (image %d of %d), restart mode %s", im.point, ii, len(images), []string{"default", "allow-invalid-mounts", "no-restore"}[mode])
				if err != nil {
					if mountFailed && !allowInvalid && !noRestore {
						os.RemoveAll(r2)
						continue // prescribed: a remote snapshot cannot be mounted and that is not tolerated
					}
					s.Fail("restart-failed", "%s: starting the snapshotter again on the same root failed: %v", where, err)
					return
				}
				fs2.Quiet = true
				live := map[string]snapshots.Info{}
				werr := sn2.Walk(ctx, func(_ context.Context, info snapshots.Info) error { live[info.Name] = info; return nil })
				if werr != nil && len(im.acked) > 0 {
					s.Fail("restart-walk-failed", "%s: Walk after restart: %v", where, werr)
					return
				}
				if !noRestore {
					if mountFailed && !allowInvalid {
						s.Fail("restart-tolerated-invalid-mount", "%s: a remote snapshot could not be mounted during restore but the snapshotter started although allow_invalid_mounts_on_restart is off", where)
						return
					}
					// stale mounts were force-unmounted first
					firstMount := -1
					for i, e := range fs2.Events {
						if e.Op == "mount" && firstMount < 0 {
							firstMount = i
						}
						if e.Op == "force-unmount" && firstMount >= 0 {
							s.Fail("stale-unmount-after-mount", "%s: a stale mount was force-unmounted after a new mount had been made", where)
							return
						}
					}
					nForce := 0
					for _, e := range fs2.Events {
						if e.Op == "force-unmount" {
							nForce++
						}
					}
					if nForce != stale {
						s.Fail("stale-mounts-left", "%s: %d stale mount(s) existed under snapshots/ but %d were force-unmounted", where, stale, nForce)
						return
					}
					// every committed remote snapshot is mounted again with its labels; nothing else is mounted
					want := 0
					for name, info := range live {
						if _, remote := info.Labels[common.RemoteLabel]; !remote || info.Kind != snapshots.KindCommitted {
							continue
						}
						var ok, failed int
						for _, e := range fs2.Events {
							if e.Op == "mount" && e.Labels[common.CallLabel] == info.Labels[common.CallLabel] && e.Labels[common.TargetLabel] == info.Labels[common.TargetLabel] {
								if e.OK {
									ok++
									if fmt.Sprint(sortedLabels(e.Labels)) != fmt.Sprint(sortedLabels(info.Labels)) {
										s.Fail("restored-with-other-labels", "%s: remote snapshot %q was re-mounted with labels %v, it was created with %v", where, name, sortedLabels(e.Labels), sortedLabels(info.Labels))
										return
									}
									if d := im.dirs[name]; d != "" && e.MP != filepath.Join(r2, d, "fs") {
										s.Fail("restored-elsewhere", "%s: remote snapshot %q was re-mounted on %s, its directory is %s", where, name, common.RelSnap(e.MP), d)
										return
									}
								} else {
									failed++
								}
							}
						}
						if ok+failed != 1 || (ok == 0 && !allowInvalid) {
							s.Fail("remote-not-remounted", "%s: committed remote snapshot %q: %d successful and %d failed mount attempt(s) during restore (want exactly one attempt)", where, name, ok, failed)
							return
						}
						want += ok
						remounted += ok
					}
					if len(fs2.Live) != want {
						s.Fail("unexpected-mounts", "%s: %d mount(s) are live after restart, %d committed remote snapshots were restored: %v", where, len(fs2.Live), want, relAll(fs2.LiveMounts()))
						return
					}
				}
				// every acknowledged snapshot is still present (unless a Remove had been invoked on it)
				for _, name := range im.acked {
					if im.removeSeen[name] {
						continue
					}
					info, err := sn2.Stat(ctx, name)
					if err != nil {
						// a key that was committed under another name later is gone under its old name: fine
						if contains(im.acked, name) && renamed(im, name) {
							continue
						}
						s.Fail("acknowledged-snapshot-lost", "%s: snapshot %q had been acknowledged before the crash and never removed, but Stat fails after restart: %v", where, name, err)
						return
					}
					if d := im.dirs[name]; d != "" {
						if _, remote := info.Labels[common.RemoteLabel]; !remote {
							if _, err := os.Stat(filepath.Join(r2, d, "fs")); err != nil {
								s.Fail("ordinary-snapshot-touched", "%s: the directory of ordinary snapshot %q (%s) is gone after restart", where, name, d)
								return
							}
						}
					}
				}
				// one cleanup pass removes everything half-made
				if err := sn2.(snapshots.Cleaner).Cleanup(ctx); err != nil && len(live) > 0 {
					s.Fail("cleanup-after-restart-failed", "%s: Cleanup: %v", where, err)
					return
				}
				ents, _ := os.ReadDir(filepath.Join(r2, "snapshots"))
				if len(live) > 0 || werr == nil {
					if len(ents) != len(live) {
						var names []string
						for _, e := range ents {
							n := e.Name()
							if strings.HasPrefix(n, "new-") {
								n = "new-*" // temp names are not seeded: keep them out of the log
							}
							names = append(names, n)
						}
						s.Fail("leftovers-after-cleanup", "%s: after one Cleanup %d directories %v remain under snapshots/ for %d live snapshots", where, len(ents), names, len(live))
						return
					}
				}
				sn2.Close()
				os.RemoveAll(r2)
			}
		}
		sn.Close()
	})
	out.Res = res
	out.Counters["crash_images"] += len(images)
	out.Counters["restarts"] += restarts
	out.Counters["remote_remounts"] += remounted
	pts := map[string]bool{}
	for _, im := range images {
		pts[im.point] = true
	}
	var pl []string
	for p := range pts {
		pl = append(pl, p)
		out.Counters["point."+p]++
	}
	sort.Strings(pl)
	out.Nontrivial = remounted > 0 && len(images) > 5
	out.Signature = fmt.Sprintf("ops%d/async%v/f%d/rf%d/img%d", nOps, async, failDen, restoreFailDen, len(images))
	out.Sample = map[string]any{"ops": nOps, "async_remove": async, "backend_fail_den": failDen, "restore_fail_den": restoreFailDen, "crash_images": len(images), "crash_point_kinds": pl, "restarts": restarts, "log_tail": tailN(res.LogTail, 25)}
	return out
}

func renamed(im *image, key string) bool {
	// active keys (k<i>) disappear when committed under a name; the driver acks both
	return strings.HasPrefix(key, "k") || strings.HasPrefix(key, "basekey")
}

func contains(l []string, x string) bool {
	for _, y := range l {
		if y == x {
			return true
		}
	}
	return false
}

func sortedLabels(m map[string]string) []string {
	var o []string
	for k, v := range m {
		o = append(o, k+"="+v)
	}
	sort.Strings(o)
	return o
}

func relAll(ps []string) []string {
	var o []string
	for _, p := range ps {
		o = append(o, common.RelSnap(p))
	}
	return o
}

func tailN(l []string, n int) []string {
	if len(l) > n {
		return l[len(l)-n:]
	}
	return l
}

func TestC09(t *testing.T) {
	hx.Main(t, hx.Prop{
		ID:   "C09",
		Rule: "each run samples one history of 2-10 snapshotter calls (Prepare with target, Prepare, View, Commit, Remove, Cleanup; backend Mount/Check/Unmount failing with a drawn rate; sync/async removal) and records a crash image (directory tree incl. metadata.db as last committed + kernel mount table + what clients had been told) at EVERY crash point: before/after each disk call of the snapshotter (RemoveAll split per entry), before/after each backend call, between calls, at the end; then every image is restarted under all three configurations (default, allow_invalid_mounts_on_restart, no-restore) with restore-time mount failures drawn. Oracles per restart: start succeeds or fails exactly as the flag prescribes; stale mounts force-unmounted first and completely; every committed remote snapshot re-mounted once on its directory with its creation labels and nothing else mounted; acknowledged snapshots present, ordinary directories untouched; one Cleanup leaves exactly the live snapshots' directories. non-trivial = more than 5 crash images and at least one remote re-mount; distinct = schedule hash x history configuration",
		Run:  run,
		PanicIsViolation: true,
		HangIsViolation:  true,
		Components: map[string]string{"snapshot.snapshotter incl. restoreRemoteSnapshot": "real (instrumented copy)", "containerd snapshots/storage on bolt": "real (bolt's own crash atomicity trusted)", "directories": "real tmpfs, copied at crash points", "backend filesystem, kernel mount table": "stub"},
		Assumptions: []string{"process death, not power loss: the page cache survives; metadata.db is copied between bolt calls (bolt commits are atomic)", "at most 90 crash images per history (never reached by the drawn history lengths in practice; counted in evidence)"},
	})
}
