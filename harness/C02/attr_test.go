package c02

import "github.com/hanwen/go-fuse/v2/fuse"

func conv(a interface{}) *fusefsAttr {
	x := a.(*fuse.Attr)
	return &fusefsAttr{Ino: x.Ino, Size: x.Size, Mode: x.Mode, Uid: x.Owner.Uid, Gid: x.Owner.Gid, Mtime: x.Mtime, Rdev: x.Rdev, Nlink: x.Nlink}
}
