// C02 — lazily served files and metadata equal the source tar under any access history.
// Real: layer.Resolver -> layer -> go-fuse node interfaces (driven in-process), reader,
// remote blob, both chunk caches, both metadata stores (memory, bolt db), task manager,
// estargz. Stub: registry (honest), kernel.
package c02

import (
	"archive/tar"
	"bytes"
	"context"
	"fmt"
	"io"
	"path/filepath"
	"sort"
	"syscall"
	"testing"
	"time"

	"github.com/containerd/containerd/v2/pkg/reference"
	dbmetadata "github.com/containerd/stargz-snapshotter/cmd/containerd-stargz-grpc/db"
	"github.com/containerd/stargz-snapshotter/fs/config"
	"github.com/containerd/stargz-snapshotter/fs/layer"
	"github.com/containerd/stargz-snapshotter/metadata"
	memorymetadata "github.com/containerd/stargz-snapshotter/metadata/memory"
	"github.com/containerd/stargz-snapshotter/task"
	"github.com/containerd/stargz-snapshotter/zzverif/common"
	fusefs "github.com/hanwen/go-fuse/v2/fs"
	ocispec "github.com/opencontainers/image-spec/specs-go/v1"
	bolt "go.etcd.io/bbolt"
	"golang.org/x/sys/unix"
	"verifsim/hx"
	"verifsim/simreg"
	"verifsim/simrt"
)

func run(t *testing.T, tape *simrt.Tape) *hx.Outcome {
	out := &hx.Outcome{Counters: map[string]int{}}
	d := func(n int) int { return tape.Draw("gen", n) }
	cs := []int{8, 17, 64, 50, 100}[d(5)]
	spec := common.GenTar(d, tape.Seed, common.GenOpts{ChunkSize: cs, MaxEntries: []int{14, 14, 40}[d(3)], OddNames: d(2) == 0, BigFiles: d(2) == 0, Dups: d(3) == 0})
	tarBytes := spec.Bytes()
	model, err := common.Model(tarBytes)
	if err != nil {
		out.InfraErr = "model: " + err.Error()
		return out
	}
	bc := common.BuildCfg{ChunkSize: cs, Compression: d(2), Workers: 1 + d(3)}
	if d(3) == 0 {
		bc.MinChunkSize = 3 * cs
	}
	var regs []string
	model.Walk(func(n *common.MNode) {
		if n.Type == tar.TypeReg {
			regs = append(regs, n.Path)
		}
	})
	for _, p := range regs {
		if d(3) == 0 && model.ExplicitParents(p) {
			bc.Prioritized = append(bc.Prioritized, p)
		}
	}
	built, err := common.BuildBlob(tarBytes, bc)
	if err != nil {
		out.InfraErr = "build: " + err.Error()
		return out
	}
	c := func(n int) int { return tape.Draw("cfg", n) }
	useDB := c(2) == 1
	calm := c(2) == 0
	rcfg := simreg.Config{Base: simreg.Personality(c(int(simreg.NumPersonalities))), Redirect: c(3) == 0, ReadYield: c(2) == 1}
	if !calm {
		rcfg.Fickle = c(2) == 1
		rcfg.FaultDen = []int{8, 25}[c(2)]
		rcfg.LatencyDen = []int{0, 5}[c(2)]
		if rcfg.Redirect {
			rcfg.ExpireDen = []int{0, 4}[c(2)]
		}
	}
	fcfg := config.Config{
		HTTPCacheType: []string{"memory", ""}[c(2)], FSCacheType: []string{"memory", ""}[c(2)],
		PrefetchTimeoutSec: 10, NoPrometheus: true,
		BlobConfig: config.BlobConfig{ChunkSize: []int64{16, 64, 300, 50000}[c(4)], PrefetchChunkSize: []int64{0, 128}[c(2)], FetchTimeoutSec: 60, MaxRetries: 1, MinWaitMSec: 10, MaxWaitMSec: 200, ValidInterval: 60},
		DirectoryCacheConfig: config.DirectoryCacheConfig{MaxLRUCacheEntry: 1 + c(3), MaxCacheFds: 1 + c(3), SyncAdd: c(2) == 1, Direct: c(3) == 0},
	}
	if c(3) == 0 && fcfg.FSCacheType == "" {
		fcfg.PassThrough = true
		fcfg.MergeBufferSize = int64([]int{cs, 4 * cs, 1 << 20}[c(3)])
		// chunk boundaries need not be aligned to the merge buffer (own stream: older tapes replay unchanged)
		switch tape.Draw("cfg.mbuf", 4) {
		case 1:
			fcfg.MergeBufferSize++
		case 2:
			if fcfg.MergeBufferSize > 2 {
				fcfg.MergeBufferSize--
			}
		case 3:
			fcfg.MergeBufferSize += int64(cs/2 + 1)
		}
		fcfg.MergeWorkerCount = 1 + c(3)
		if tape.Draw("cfg.mwc", 6) == 0 {
			fcfg.MergeWorkerCount = 0 // unset (library users without the toml defaults)
		}
	}
	nReaders := 1 + c(3)
	doPrefetch, doBg := c(2) == 1, c(2) == 1
	root, cleanup := hx.RunDir()
	defer cleanup()
	var bdb *bolt.DB
	store := metadata.Store(memorymetadata.NewReader)
	if useDB {
		bdb, err = bolt.Open(filepath.Join(root, "metadata.db"), 0600, &bolt.Options{NoSync: true, InitialMmapSize: 64 << 20})
		if err != nil {
			out.InfraErr = "bolt: " + err.Error()
			return out
		}
		defer bdb.Close()
		store = func(sr *io.SectionReader, opts ...metadata.Option) (metadata.Reader, error) {
			return dbmetadata.NewReader(bdb, sr, opts...)
		}
	}
	nops, nreads, nerr := 0, 0, 0
	var reg *simreg.Registry
	res := simrt.Run(t, tape, simrt.Options{MaxSteps: 400000, HangAfter: 3 * time.Hour}, func(s *simrt.Sim, mt *simrt.Task) {
		s.Procs = 1 + s.Tape.Draw("cfg", 3)
		s.UseDisk(simrt.DiskCfg{Yield: true})
		reg = simreg.New(s, rcfg)
		reg.Blobs[built.Digest.String()] = built.Blob
		tm := task.NewBackgroundTaskManager(2, 5*time.Second)
		rs, err := layer.NewResolver(filepath.Join(root, "r"), tm, fcfg, nil, store, layer.OverlayOpaqueAll, nil)
		if err != nil {
			s.Fail("harness", "NewResolver: %v", err)
			return
		}
		refspec, _ := reference.Parse("reg.example/repo/img:latest")
		desc := ocispec.Descriptor{Digest: built.Digest, Size: int64(len(built.Blob)), MediaType: ocispec.MediaTypeImageLayerGzip}
		hosts := common.Hosts(reg, 30*time.Second, nil, s.Tape.Draw("cfg", 2) == 1)
		var l layer.Layer
		for attempt := 0; attempt < 8 && l == nil; attempt++ {
			l, err = rs.Resolve(context.Background(), hosts, refspec, desc)
			if err != nil {
				l = nil
				if calm {
					s.Fail("resolve-error", "Resolve failed against a calm honest registry: %v", err)
					return
				}
			}
		}
		if l == nil {
			out.Counters["never_resolved"]++
			return
		}
		if err := l.Verify(built.TOCDigest); err != nil {
			if calm {
				s.Fail("verify-error", "Verify with the builder's TOC digest failed: %v", err)
			}
			out.Counters["verify_failed"]++
			return
		}
		rn, err := l.RootNode(0)
		if err != nil {
			s.Fail("rootnode-error", "RootNode: %v", err)
			return
		}
		tree := common.NewTree(rn)
		inoOf := map[uint64]string{}
		checkIno := func(ino uint64, m *common.MNode) bool {
			key := m.Resolve().Path
			if prev, ok := inoOf[ino]; ok && prev != key {
				s.Fail("inode-not-unique", "inode %d is used for %q and for %q", ino, prev, key)
				return false
			}
			inoOf[ino] = key
			return true
		}
		checkAttr := func(p string, m *common.MNode, a *fusefsAttr) bool {
			r := m.Resolve()
			wantMode := common.TarModeToSys(r.Type, r.Mode)
			if a.Mode != wantMode {
				s.Fail("wrong-mode", "%q: mode %#o, the tar says %#o", p, a.Mode, wantMode)
				return false
			}
			var wantSize uint64
			switch r.Type {
			case tar.TypeReg:
				wantSize = uint64(len(r.Data))
			case tar.TypeSymlink:
				wantSize = uint64(len(r.Link))
			}
			if a.Size != wantSize {
				s.Fail("wrong-size", "%q: size %d, the tar says %d", p, a.Size, wantSize)
				return false
			}
			if !r.Implicit {
				if a.Uid != uint32(r.UID) || a.Gid != uint32(r.GID) {
					s.Fail("wrong-owner", "%q: owner %d:%d, the tar says %d:%d", p, a.Uid, a.Gid, r.UID, r.GID)
					return false
				}
				if int64(a.Mtime) != r.MTime {
					s.Fail("wrong-mtime", "%q: mtime %d, the tar says %d", p, a.Mtime, r.MTime)
					return false
				}
			}
			if r.Type == tar.TypeChar || r.Type == tar.TypeBlock {
				if want := uint32(unix.Mkdev(uint32(r.Major), uint32(r.Minor))); a.Rdev != want {
					s.Fail("wrong-rdev", "%q: rdev %#x, the tar says %d:%d", p, a.Rdev, r.Major, r.Minor)
					return false
				}
			}
			if a.Nlink != uint32(r.Nlink) {
				s.Fail("wrong-nlink", "%q: link count %d, the tar implies %d", p, a.Nlink, r.Nlink)
				return false
			}
			return checkIno(a.Ino, m)
		}
		paths := model.Paths()
		var ts []*simrt.Task
		if doPrefetch {
			ts = append(ts, s.Go("prefetch", func(t *simrt.Task) {
				err := l.Prefetch(int64(s.Tape.Draw(t.Label, len(built.Blob)+1)))
				s.Event("prefetch done ok=%v", err == nil)
				if err != nil && calm {
					s.Fail("prefetch-error", "Prefetch failed against a calm honest registry: %v", err)
				}
			}))
		}
		if doBg {
			ts = append(ts, s.Go("bgfetch", func(t *simrt.Task) {
				err := l.BackgroundFetch()
				s.Event("bgfetch done ok=%v", err == nil)
				if err != nil && calm {
					s.Fail("bgfetch-error", "BackgroundFetch failed against a calm honest registry: %v", err)
				}
			}))
		}
		for r := 0; r < nReaders; r++ {
			r := r
			ts = append(ts, s.Go(fmt.Sprintf("reader%d", r), func(t *simrt.Task) {
				dr := func(n int) int { return s.Tape.Draw(t.Label, n) }
				n := 2 + dr(10)
				for i := 0; i < n && !s.Failed(); i++ {
					nops++
					// pick a path: mostly existing, sometimes missing
					var p string
					switch {
					case len(paths) == 0 || dr(8) == 0:
						p = []string{"nosuch", "a/nosuch", ".prefetch.landmark", ".no.prefetch.landmark", "stargz.index.json"}[dr(5)]
					default:
						p = paths[dr(len(paths))]
					}
					m := model.Get(p)
					t.Yield("op")
					switch op := dr(6); {
					case op == 0: // readdir of the directory containing p (or p itself if a directory)
						dir := p
						dm := m
						if dm == nil || dm.Type != tar.TypeDir {
							dir = filepath.Dir(p)
							if dir == "." {
								dir = ""
							}
							dm = model.Get(dir)
						}
						if dm == nil || dm.Type != tar.TypeDir {
							continue
						}
						dn, _, errno := tree.Lookup(dir)
						if errno != 0 {
							s.Fail("lookup-failed", "Lookup(%q) of an existing directory failed: %v", dir, errno)
							return
						}
						ents, errno := tree.Readdir(dn)
						if errno != 0 {
							s.Fail("readdir-failed", "Readdir(%q) failed: %v", dir, errno)
							return
						}
						var got, want []string
						for _, e := range ents {
							if e.Name == "." || e.Name == ".." {
								continue
							}
							got = append(got, e.Name)
							cm := dm.Children[e.Name]
							if cm != nil {
								if wt := common.TarModeToSys(cm.Resolve().Type, 0) & syscall.S_IFMT; e.Mode&syscall.S_IFMT != wt {
									s.Fail("readdir-wrong-type", "Readdir(%q) lists %q with type %#o, the tar says %#o", dir, e.Name, e.Mode&syscall.S_IFMT, wt)
									return
								}
								if !checkIno(e.Ino, cm) {
									return
								}
							}
						}
						for k := range dm.Children {
							want = append(want, k)
						}
						sort.Strings(got)
						sort.Strings(want)
						if fmt.Sprint(got) != fmt.Sprint(want) {
							s.Fail("readdir-mismatch", "Readdir(%q) = %v, the tar has %v", dir, got, want)
							return
						}
						s.Event("r%d readdir %q ok", r, dir)
					default:
						nd, eo, errno := tree.Lookup(p)
						if m == nil {
							if errno == 0 {
								s.Fail("phantom-entry", "Lookup(%q) succeeded but the tar has no such entry", p)
								return
							}
							s.Event("r%d lookup %q enoent", r, p)
							continue
						}
						if errno != 0 {
							s.Fail("lookup-failed", "Lookup(%q) of an existing entry failed: %v", p, errno)
							return
						}
						if !checkAttr(p, m, attrOf(&eo.Attr)) {
							return
						}
						ao, errno := tree.Getattr(nd)
						if errno != 0 || !checkAttr(p, m, attrOf(&ao.Attr)) {
							if errno != 0 {
								s.Fail("getattr-failed", "Getattr(%q) failed: %v", p, errno)
							}
							return
						}
						rm := m.Resolve()
						switch rm.Type {
						case tar.TypeSymlink:
							if ln, errno := tree.Readlink(nd); errno != 0 || ln != rm.Link {
								s.Fail("wrong-symlink", "Readlink(%q) = %q (%v), the tar says %q", p, ln, errno, rm.Link)
								return
							}
						case tar.TypeReg:
							if op >= 3 {
								fh, errno := tree.Open(nd)
								if errno != 0 {
									nerr++
									if calm {
										s.Fail("open-failed", "Open(%q) failed against a calm honest registry: %v", p, errno)
										return
									}
									continue
								}
								for k := 0; k < 1+dr(3) && !s.Failed(); k++ {
									sz := len(rm.Data)
									off := dr(sz + cs + 1)
									ln := 1 + dr(3*cs+2)
									if dr(5) == 0 {
										off, ln = 0, sz+1
									}
									b, errno, pt := tree.Read(fh, int64(off), ln)
									nreads++
									if pt {
										out.Counters["passthrough_reads"]++
									}
									if errno != 0 {
										nerr++
										if calm {
											st, _ := tree.StateJSON()
											s.Fail("read-failed", "Read(%q, off=%d, len=%d) failed against a calm honest registry: %v; state file: %s", p, off, ln, errno, st)
											return
										}
										continue
									}
									want := []byte{}
									if off < sz {
										end := off + ln
										if end > sz {
											end = sz
										}
										want = rm.Data[off:end]
									}
									if !bytes.Equal(b, want) {
										s.Fail("wrong-bytes", "Read(%q, off=%d, len=%d) returned %d bytes differing from the tar's %d bytes (file size %d, build chunk %d, passthrough=%v)", p, off, ln, len(b), len(want), sz, cs, pt)
										return
									}
									t.Yield("between-reads")
								}
								tree.Release(fh)
								s.Event("r%d read %q ok", r, p)
							}
						}
						// xattrs
						var wantKeys []string
						for k := range rm.Xattrs {
							wantKeys = append(wantKeys, k)
						}
						sort.Strings(wantKeys)
						gotKeys, errno := tree.Listxattr(nd)
						if errno != 0 || fmt.Sprint(gotKeys) != fmt.Sprint(wantKeys) {
							s.Fail("wrong-xattrs", "Listxattr(%q) = %v (%v), the tar says %v", p, gotKeys, errno, wantKeys)
							return
						}
						for _, k := range wantKeys {
							if v, errno := tree.Getxattr(nd, k); errno != 0 || v != rm.Xattrs[k] {
								s.Fail("wrong-xattrs", "Getxattr(%q,%q) = %q (%v), the tar says %q", p, k, v, errno, rm.Xattrs[k])
								return
							}
						}
					}
				}
			}))
		}
		mt.Join(ts...)
		// quiet period: once the registry has stopped failing, every regular file reads in full and equals the
		// tar - whatever a failed transfer, an aborted cache write or an eviction left behind before
		if !s.Failed() && !calm {
			reg.NoFaults, reg.Down = true, false
			reg.Cfg.LatencyDen, reg.Cfg.ExpireDen = 0, 0
			mt.Sleep(40 * time.Second) // requests that were stalled or are being retried have ended by now
			sweep := common.NewTree(rn)
			model.Walk(func(n *common.MNode) {
				if s.Failed() || n.Type != tar.TypeReg || n.Path == "" {
					return
				}
				nd, _, errno := sweep.Lookup(n.Path)
				if errno != 0 {
					s.Fail("quiet-lookup-failed", "with the registry healthy again Lookup(%q) fails: %v", n.Path, errno)
					return
				}
				fh, errno := sweep.Open(nd)
				if errno != 0 {
					s.Fail("quiet-read-failed", "with the registry healthy again Open(%q) fails: %v", n.Path, errno)
					return
				}
				b, errno, _ := sweep.Read(fh, 0, len(n.Data)+1)
				sweep.Release(fh)
				if errno != 0 {
					st, _ := sweep.StateJSON()
					s.Fail("quiet-read-failed", "with the registry healthy again reading %q (%d bytes) still fails: %v; state file: %s", n.Path, len(n.Data), errno, st)
					return
				}
				if !bytes.Equal(b, n.Data) {
					s.Fail("wrong-bytes", "quiet period: %q read in full differs from the tar (%d bytes returned, %d expected)", n.Path, len(b), len(n.Data))
				}
				out.Counters["quiet_sweep_reads"]++
			})
		}
		if !s.Failed() {
			l.Done()
		}
	})
	out.Res = res
	out.Counters["ops"] += nops
	out.Counters["reads"] += nreads
	out.Counters["op_errors"] += nerr
	if reg != nil {
		for k, v := range reg.Stats {
			out.Counters["reg."+k] += v
		}
	}
	if useDB {
		out.Counters["store_db"]++
	} else {
		out.Counters["store_memory"]++
	}
	out.Nontrivial = nreads > 0 && len(spec.Entries) > 2
	out.Signature = fmt.Sprintf("e%d/cs%d/m%d/z%d/w%d/p%d/db%v/calm%v/%s/%s/pt%v/rc%d", len(spec.Entries), cs, bc.MinChunkSize, bc.Compression, bc.Workers, len(bc.Prioritized), useDB, calm,
		fcfg.HTTPCacheType, fcfg.FSCacheType, fcfg.PassThrough, fcfg.BlobConfig.ChunkSize)
	var names []string
	for _, e := range spec.Entries {
		names = append(names, fmt.Sprintf("%s(%c,%d)", e.Name, e.Type, len(e.Data)))
	}
	out.Sample = map[string]any{"tar": names, "build_chunk": cs, "min_chunk": bc.MinChunkSize, "zstd": bc.Compression == 1, "workers": bc.Workers, "prioritized": bc.Prioritized,
		"store_db": useDB, "calm": calm, "http_cache": fcfg.HTTPCacheType, "fs_cache": fcfg.FSCacheType, "passthrough": fcfg.PassThrough, "registry_chunk": fcfg.BlobConfig.ChunkSize,
		"readers": nReaders, "prefetch": doPrefetch, "background_fetch": doBg, "ops": nops, "reads": nreads}
	return out
}

type fusefsAttr struct {
	Ino, Size  uint64
	Mode       uint32
	Uid, Gid   uint32
	Mtime      uint64
	Rdev       uint32
	Nlink      uint32
}

func attrOf(a interface {
}) *fusefsAttr {
	return conv(a)
}

var _ fusefs.InodeEmbedder

func TestC02(t *testing.T) {
	hx.Main(t, hx.Prop{
		ID:   "C02",
		Rule: "each run draws a tar (directories incl. implicit parents, regular files with sizes around chunk boundaries, symlinks, hard links, devices, fifos, xattrs, owners, special mode bits; ./ prefix), build options (chunk 8/17/64, min-chunk-size, gzip/zstd:chunked, prioritized subset, 1-3 workers), registry chunk size, memory/directory caches with tiny LRUs, passthrough, metadata store (memory / bolt db), registry personality (calm half of the runs; otherwise transient faults, expiry, latency), then 1-3 reader tasks issue 2-11 lookups/readdirs/getattr/readlink/xattr/open+reads (offsets incl. past EOF, spans of several chunks) each while Prefetch and BackgroundFetch run; the reference is the tar re-read with archive/tar. non-trivial = at least one file read in a tar of more than 2 entries; distinct = schedule hash x configuration",
		Run:  run,
		HangIsViolation: true,
		PanicIsViolation: true,
		Components: map[string]string{"fs/layer (Resolver, layer, node)": "real (instrumented copy)", "fs/reader, fs/remote, cache, task": "real", "metadata/memory, cmd/.../db on a real bolt file": "real", "estargz builder": "real, run before the simulated part", "registry, CDN": "stub (simreg, honest bytes)", "kernel FUSE": "stub: node interfaces driven in-process; passthrough emulated with pread on the returned fd"},
		Assumptions: []string{"duplicate tar names, ../ and absolute spellings are not generated (the reference model would have to guess the builder's normalisation)", "mtime of implicit directories is not compared"},
	})
}
