// C11 — a chunk-cache hit returns exactly the bytes committed under that key.
// Real: cache.directoryCache / cache.MemoryCache over real files (tmpfs), cacheutil LRUs,
// the asynchronous persistence goroutine (a scheduler task). Stub: none.
package c11

import (
	"bytes"
	"fmt"
	"io"
	"os"
	"path/filepath"
	"runtime"
	"runtime/debug"
	"strings"
	"testing"
	"time"

	"github.com/containerd/stargz-snapshotter/cache"
	"verifsim/hx"
	"verifsim/simrt"
)

type wrec struct {
	id        int
	key       string
	n         int
	commitSeq uint64 // seq at which Commit was invoked (0 = never)
	aborted   bool
	written   int
}

func content(key string, id, n int) []byte {
	b := make([]byte, n)
	x := simrt.Mix(uint64(id)*7919+1, uint64(len(key))*31+uint64(key[len(key)-1]))
	for i := range b {
		x = x*6364136223846793005 + 1442695040888963407
		b[i] = byte(x >> 33)
	}
	// make the first bytes self-describing for readable reports
	hdr := []byte(fmt.Sprintf("%s#%d#%d|", key, id, n))
	copy(b, hdr)
	return b
}

func run(t *testing.T, tape *simrt.Tape) *hx.Outcome {
	out := &hx.Outcome{Counters: map[string]int{}}
	useDir := tape.Draw("cfg", 4) != 0
	memCap := 1 + tape.Draw("cfg", 3)
	fdCap := 1 + tape.Draw("cfg", 3)
	syncAdd := tape.Draw("cfg", 2) == 1
	direct := tape.Draw("cfg", 4) == 0
	fadv := tape.Draw("cfg", 3) == 0
	nKeys := 2 + tape.Draw("cfg", 4)
	nClients := 2 + tape.Draw("cfg", 3)
	faultDen := []int{0, 0, 0, 12}[tape.Draw("cfg", 4)]
	root, cleanup := hx.RunDir()
	defer cleanup()
	// no garbage collection during a run: os.File finalizers would close leaked descriptors at an
	// unseeded moment (the descriptor audit below must replay); collected once after the run
	defer runtime.GC()
	defer debug.SetGCPercent(debug.SetGCPercent(-1))
	var ws []*wrec
	hits, misses := 0, 0
	res := simrt.Run(t, tape, simrt.Options{MaxSteps: 200000, HangAfter: time.Hour}, func(s *simrt.Sim, mt *simrt.Task) {
		s.UseDisk(simrt.DiskCfg{Yield: true, FaultDen: faultDen})
		var bc cache.BlobCache
		if useDir {
			var err error
			bc, err = cache.NewDirectoryCache(filepath.Join(root, "c"), cache.DirectoryCacheConfig{
				MaxLRUCacheEntry: memCap, MaxCacheFds: fdCap, SyncAdd: syncAdd, Direct: direct, FadvDontNeed: fadv})
			if err != nil {
				if faultDen > 0 {
					return
				}
				s.Fail("harness", "NewDirectoryCache: %v", err)
				return
			}
		} else {
			bc = cache.NewMemoryCache()
		}
		opts := func(t *simrt.Task) []cache.Option {
			var o []cache.Option
			switch s.Tape.Draw(t.Label, 4) {
			case 0:
				o = append(o, cache.Direct())
			case 1:
				o = append(o, cache.PassThrough())
			}
			return o
		}
		sizes := []int{0, 1, 7, 100, 5000, 70000}
		var ts []*simrt.Task
		for c := 0; c < nClients; c++ {
			c := c
			ts = append(ts, s.Go(fmt.Sprintf("client%d", c), func(t *simrt.Task) {
				n := 1 + s.Tape.Draw(t.Label, 8)
				for i := 0; i < n && !s.Failed(); i++ {
					key := fmt.Sprintf("key%02d", s.Tape.Draw(t.Label, nKeys))
					if s.Tape.Draw(t.Label, 2) == 0 {
						// writer
						w := &wrec{id: len(ws) + 1, key: key, n: sizes[s.Tape.Draw(t.Label, len(sizes))]}
						ws = append(ws, w)
						cw, err := bc.Add(key, opts(t)...)
						if err != nil {
							if faultDen == 0 {
								s.Fail("add-error", "Add(%s): %v", key, err)
							}
							w.aborted = true
							continue
						}
						data := content(key, w.id, w.n)
						pieces := 1 + s.Tape.Draw(t.Label, 3)
						failed := false
						for p := 0; p < pieces && !failed; p++ {
							lo, hi := w.n*p/pieces, w.n*(p+1)/pieces
							if _, err := cw.Write(data[lo:hi]); err != nil {
								failed = true
							}
							w.written = hi
							t.Yield("between-writes")
						}
						if failed || s.Tape.Draw(t.Label, 4) == 0 {
							w.aborted = true
							s.Event("c%d abort w%d %s", c, w.id, key)
							cw.Abort()
							out.Counters["aborts"]++
						} else {
							w.commitSeq = s.Event("c%d commit w%d %s n=%d", c, w.id, key, w.n)
							err := cw.Commit()
							if err != nil && faultDen == 0 {
								s.Fail("commit-error", "Commit(%s): %s", key, strings.ReplaceAll(err.Error(), root, "$ROOT"))
							}
							out.Counters["commits"]++
						}
						cw.Close()
					} else {
						// reader
						r, err := bc.Get(key, opts(t)...)
						if err != nil {
							misses++
							s.Event("c%d get %s miss", c, key)
							continue
						}
						hits++
						buf := make([]byte, 70001)
						nr, err := r.ReadAt(buf, 0)
						retSeq := s.Event("c%d get %s hit n=%d", c, key, nr)
						if err != nil && err != io.EOF {
							s.Fail("read-error", "ReadAt on a hit of %s failed: %v", key, err)
							r.Close()
							return
						}
						got := buf[:nr]
						w := judge(s, ws, key, got, retSeq)
						if w == nil {
							r.Close()
							return
						}
						// ranged re-reads while other tasks keep evicting
						for k := 0; k < s.Tape.Draw(t.Label, 3); k++ {
							t.Yield("between-reads")
							if nr == 0 {
								break
							}
							off := s.Tape.Draw(t.Label, nr)
							ln := 1 + s.Tape.Draw(t.Label, nr-off)
							p := make([]byte, ln)
							m, err := r.ReadAt(p, int64(off))
							if (err != nil && err != io.EOF) || m != ln || !bytes.Equal(p, got[off:off+ln]) {
								s.Fail("unstable-read", "re-read [%d,%d) of %s (writer %d) on an open reader returned %d bytes err=%v differing from the first read: the buffer/file changed under the reader", off, off+ln, key, w.id, m, err)
								r.Close()
								return
							}
						}
						if ra := r.GetReaderAt(); ra == nil {
							s.Fail("nil-readerat", "GetReaderAt returned nil")
						}
						r.Close()
					}
				}
			}))
		}
		mt.Join(ts...)
		// let background persistence finish, then everything committed must still read back right
		mt.Sleep(time.Second)
		for k := 0; k < nKeys && !s.Failed(); k++ {
			key := fmt.Sprintf("key%02d", k)
			for _, o := range [][]cache.Option{nil, {cache.Direct()}} {
				r, err := bc.Get(key, o...)
				if err != nil {
					continue
				}
				buf := make([]byte, 70001)
				nr, err := r.ReadAt(buf, 0)
				if err != nil && err != io.EOF {
					s.Fail("read-error", "final ReadAt of %s failed: %v", key, err)
				} else {
					judge(s, ws, key, buf[:nr], s.Seq())
				}
				r.Close()
			}
		}
		// descriptor audit: every reader and writer is closed, so only the descriptor cache may still
		// hold files of this cache open, and it holds at most MaxCacheFds of them (an evicted file is
		// closed once its last user is done with it)
		if useDir && !s.Failed() {
			open := 0
			if ents, err := os.ReadDir("/proc/self/fd"); err == nil {
				for _, e := range ents {
					if tgt, err := os.Readlink("/proc/self/fd/" + e.Name()); err == nil && strings.HasPrefix(tgt, filepath.Join(root, "c")+"/") {
						open++
					}
				}
			}
			if open > fdCap {
				s.Fail("descriptor-leak", "all readers and writers are closed but %d files of the cache directory are still open; the descriptor cache holds at most %d", open, fdCap)
			}
		}
		bc.Close()
	})
	out.Res = res
	out.Counters["hits"] += hits
	out.Counters["misses"] += misses
	keysCommitted := map[string]int{}
	for _, w := range ws {
		if w.commitSeq != 0 {
			keysCommitted[w.key]++
		}
	}
	multi := false
	for _, n := range keysCommitted {
		if n > 1 {
			multi = true
		}
	}
	out.Nontrivial = hits > 0 && (multi || len(keysCommitted) > memCap || len(keysCommitted) > fdCap)
	kind := "mem"
	if useDir {
		kind = "dir"
	}
	out.Signature = fmt.Sprintf("%s/m%d/f%d/s%v/d%v/k%d/c%d/f%d", kind, memCap, fdCap, syncAdd, direct, nKeys, nClients, faultDen)
	var wsum []string
	for i, w := range ws {
		if i >= 12 {
			break
		}
		wsum = append(wsum, fmt.Sprintf("w%d %s n=%d committed=%v aborted=%v", w.id, w.key, w.n, w.commitSeq != 0, w.aborted))
	}
	out.Sample = map[string]any{"cache": kind, "mem_lru": memCap, "fd_lru": fdCap, "sync_add": syncAdd, "direct": direct, "fadv_dontneed": fadv,
		"keys": nKeys, "clients": nClients, "fault_rate_den": faultDen, "writers": wsum, "hits": hits, "misses": misses}
	return out
}

// judge decides whether got is exactly a value committed under key before seq.
func judge(s *simrt.Sim, ws []*wrec, key string, got []byte, seq uint64) *wrec {
	for _, w := range ws {
		if w.key == key && w.commitSeq != 0 && w.commitSeq < seq && w.n == len(got) && bytes.Equal(got, content(key, w.id, w.n)) {
			return w
		}
	}
	// classify
	for _, w := range ws {
		full := content(w.key, w.id, w.n)
		switch {
		case w.key == key && bytes.Equal(got, full) && w.aborted:
			s.Fail("aborted-visible", "Get(%s) returned the %d bytes of writer %d, which was aborted", key, len(got), w.id)
			return nil
		case w.key == key && bytes.Equal(got, full) && w.commitSeq == 0:
			s.Fail("uncommitted-visible", "Get(%s) returned the bytes of writer %d, which has not called Commit", key, w.id)
			return nil
		case w.key == key && len(got) < w.n && bytes.Equal(got, full[:len(got)]) && (len(got) > 0 || w.n > 0):
			s.Fail("prefix", "Get(%s) returned %d bytes, a strict prefix of the %d bytes of writer %d", key, len(got), w.n, w.id)
			return nil
		case w.key != key && w.n > 0 && bytes.Equal(got, full):
			s.Fail("other-key", "Get(%s) returned the bytes committed under %s by writer %d", key, w.key, w.id)
			return nil
		}
	}
	head := got
	if len(head) > 24 {
		head = head[:24]
	}
	s.Fail("garbage", "Get(%s) returned %d bytes (%q...) that no writer committed under that key", key, len(got), head)
	return nil
}

func TestC11(t *testing.T) {
	hx.Main(t, hx.Prop{
		ID:              "C11",
		Rule:            "each run draws directory/memory cache, memory-LRU and fd-LRU capacity 1-3, SyncAdd, Direct, FadvDontNeed, 2-5 keys (more than the capacities), 2-4 client tasks with up to 8 operations each: writers Add/Write in 1-3 pieces/Commit or Abort/Close with self-describing unique contents of 0..70000 bytes, readers Get/ReadAt/ranged re-reads/Close with per-call Direct/PassThrough options; every lock and every os call of cache.go (open, create-temp, mkdir, rename, remove) is a scheduling point and, in a quarter of the runs, a fault point (EIO/ENOSPC); the background persistence goroutine is a scheduled task. non-trivial = at least one hit in a run where a key had several committed writers or more keys were committed than an LRU holds; distinct = schedule hash x configuration. With the garbage collector off for the run, once every reader and writer is closed at most MaxCacheFds files of the cache directory may still be open (descriptor audit)",
		Run:             run,
		HangIsViolation: true,
		Components:      map[string]string{"cache.directoryCache": "real (instrumented copy) on tmpfs", "cache.MemoryCache": "real", "cacheutil.LRUCache": "real", "sync.Pool": "deterministic LIFO replacement (simsync.Pool)", "disk": "real tmpfs behind the simos seam (whole-call faults)"},
		Assumptions:     []string{"torn writes on *os.File are not injectable (concrete type); disk faults are whole-call errors", "a miss is always legal; only the content of hits is judged"},
	})
}
