// C17 — FUSE manager's persistent record equals its live mounts across re-init/restart.
// Real: fusemanager.Server (Init/Mount/Check/Unmount/Close, restoreFuseInfo), fusestore on a real
// bolt file. Stub: gRPC transport (methods called directly), service.NewFileSystem (recording
// filesystem instances tagged by configuration generation), kernel mount table.
package c17

import (
	"context"
	"encoding/json"
	"errors"
	"fmt"
	"path/filepath"
	"sort"
	"strings"
	"testing"
	"time"

	"github.com/containerd/stargz-snapshotter/fusemanager"
	pb "github.com/containerd/stargz-snapshotter/fusemanager/api"
	"github.com/containerd/stargz-snapshotter/service"
	"github.com/containerd/stargz-snapshotter/snapshot"
	"github.com/containerd/stargz-snapshotter/zzverif/common"
	"verifsim/hx"
	"verifsim/simrt"
)

func keys(m map[string]map[string]string) []string {
	var o []string
	for k := range m {
		o = append(o, filepath.Base(k))
	}
	sort.Strings(o)
	return o
}

func run(t *testing.T, tape *simrt.Tape) *hx.Outcome {
	out := &hx.Outcome{Counters: map[string]int{}}
	c := func(n int) int { return tape.Draw("cfg", n) }
	nClients := 1 + c(3)
	failDen := []int{0, 4, 10}[c(3)]
	ctorFailDen := []int{0, 0, 4}[c(3)]
	base, cleanup := hx.RunDir()
	defer cleanup()
	store := filepath.Join(base, "fm", "fusestore.db")
	inits, reinits, restarts, mounts := 0, 0, 0, 0
	res := simrt.Run(t, tape, simrt.Options{MaxSteps: 300000, HangAfter: time.Hour}, func(s *simrt.Sim, mt *simrt.Task) {
		s.UseDisk(simrt.DiskCfg{Yield: false})
		ctx := context.Background()
		var gens []*common.RecFS // every filesystem instance of the current manager process
		liveAll := func() []string {
			var o []string
			for _, g := range gens {
				o = append(o, g.LiveMounts()...)
			}
			sort.Strings(o)
			return o
		}
		fusemanager.VerifLiveMounts = liveAll
		genN := 0
		quiet := false
		genCfg := map[string]string{} // filesystem instance -> the configuration it was built from
		cfgN, lastOKCfg := 0, ""      // configuration counter; configuration of the last Init that reported success
		initEpoch := 0                // bumped when an Init starts and when it returns
		failedSince := map[string]bool{} // configurations of Inits that failed after the last successful one
		fusemanager.VerifNewFileSystem = func(ctx context.Context, root string, config *service.Config) (snapshot.FileSystem, error) {
			if t := simrt.Cur(); !quiet && ctorFailDen > 0 && t != nil && s.Tape.Draw("ctor:"+t.Label, ctorFailDen) == 0 {
				s.Stat("fault.newfilesystem", 1)
				s.Event("NewFileSystem fails")
				return nil, errors.New("injected filesystem construction failure")
			}
			genN++
			g := common.NewRecFS(s, fmt.Sprintf("gen%d", genN), failDen)
			g.Quiet = quiet
			gens = append(gens, g)
			genCfg[g.Name] = config.KubeconfigPath
			return g, nil
		}
		newManager := func() *fusemanager.Server {
			fm, err := fusemanager.NewFuseManager(ctx, nil, nil, store, "addr")
			if err != nil {
				s.Fail("harness", "NewFuseManager: %v", err)
				return nil
			}
			return fm
		}
		fm := newManager()
		if fm == nil {
			return
		}
		cfgJSON := func(n int) []byte {
			c := &fusemanager.Config{MetadataStore: "memory", DefaultImageServiceAddress: fmt.Sprintf("cfg%d", n)}
			c.Config.KubeconfigPath = fmt.Sprintf("cfg%d", n) // reaches the filesystem constructor
			b, _ := json.Marshal(c)
			return b
		}
		mpOf := func(i int) string { return filepath.Join(base, "snapshots", fmt.Sprint(i), "fs") }
		labelsOf := func(i, v int) map[string]string {
			return map[string]string{"containerd.io/snapshot/cri.image-ref": fmt.Sprintf("reg.example/img%d:latest", i), "verif/v": fmt.Sprint(v)}
		}
		// requests before initialisation fail
		if _, err := fm.Mount(ctx, &pb.MountRequest{Mountpoint: mpOf(0), Labels: labelsOf(0, 0)}); err == nil {
			s.Fail("served-before-init", "Mount succeeded before the manager was initialised")
			return
		}
		if _, err := fm.Check(ctx, &pb.CheckRequest{Mountpoint: mpOf(0)}); err == nil {
			s.Fail("served-before-init", "Check succeeded before the manager was initialised")
			return
		}
		if _, err := fm.Unmount(ctx, &pb.UnmountRequest{Mountpoint: mpOf(0)}); err == nil {
			s.Fail("served-before-init", "Unmount succeeded before the manager was initialised")
			return
		}
		lastInitErr := false
		ready := false // some Init of the current manager process succeeded
		lastInitRecords := map[string]bool{}
		initOnce := func(who string) bool {
			recs, _ := fm.VerifRecords()
			lastInitRecords = map[string]bool{}
			for k := range recs {
				lastInitRecords[k] = true
			}
			inits++
			// a snapshotter whose Init failed may retry with the very same configuration
			if !(lastInitErr && cfgN > 0 && s.Tape.Draw("initcfg", 2) == 0) {
				cfgN++
			} else {
				s.Stat("init.retry-same-config", 1)
			}
			myCfg := cfgN
			initEpoch++
			_, err := fm.Init(ctx, &pb.InitRequest{Root: base, Config: cfgJSON(myCfg)})
			initEpoch++
			lastInitErr = err != nil
			if err == nil {
				ready = true
				lastOKCfg = fmt.Sprintf("cfg%d", myCfg)
				failedSince = map[string]bool{}
			} else {
				// an initialisation that reported an error may or may not have taken effect
				failedSince[fmt.Sprintf("cfg%d", myCfg)] = true
			}
			s.Event("%s Init #%d -> ok=%v", who, inits, err == nil)
			return err == nil
		}
		// quiescent-point invariant
		audit := func(where string) bool {
			recs, err := fm.VerifRecords()
			if err != nil {
				s.Fail("harness", "cannot read the store: %v", err)
				return false
			}
			live := map[string]string{}
			for _, g := range gens {
				for _, mp := range g.LiveMounts() {
					if prev, dup := live[mp]; dup {
						s.Fail("mounted-twice", "%s: %s is mounted by filesystem instances %s and %s at the same time", where, filepath.Base(filepath.Dir(mp)), prev, g.Name)
						return false
					}
					live[mp] = g.Name
				}
			}
			for mp := range live {
				if _, ok := recs[mp]; !ok {
					s.Fail("serving-unrecorded", "%s: the manager serves %s but its store has no record of it (records: %v)", where, filepath.Base(filepath.Dir(mp)), keys(recs))
					return false
				}
			}
			for mp := range recs {
				if _, ok := live[mp]; !ok {
					if lastInitErr && lastInitRecords[mp] {
						continue // restoration failed during the last initialisation, which reported the error
					}
					s.Fail("recorded-not-serving", "%s: the store records %s but the manager is not serving it (last Init failed=%v)", where, filepath.Base(filepath.Dir(mp)), lastInitErr)
					return false
				}
			}
			return true
		}
		for !initOnce("main") {
			if inits > 6 {
				return
			}
		}
		if !audit("after first Init") {
			return
		}
		// ---- clients issue Mount / Check / Unmount; the snapshotter re-initialises; the manager restarts ----
		type ack struct {
			labels map[string]string
			gen    string
		}
		acked := map[string]ack{} // mountpoints acknowledged as mounted (by Mount returning nil)
		for round := 0; round < 2+s.Tape.Draw("cfg", 3) && !s.Failed(); round++ {
			var ts []*simrt.Task
			for k := 0; k < nClients; k++ {
				k := k
				ts = append(ts, s.Go(fmt.Sprintf("r%dclient%d", round, k), func(t *simrt.Task) {
					dr := func(n int) int { return s.Tape.Draw(t.Label, n) }
					for i := 0; i < 1+dr(5) && !s.Failed(); i++ {
						idx := 1 + k*5 + dr(5) // clients own disjoint mountpoints: the snapshotter never issues conflicting requests for one mountpoint concurrently
						mp := mpOf(idx)
						switch op := dr(6); {
						case op < 3:
							l := labelsOf(idx, round*10+i)
							_, already := acked[mp]
							curGen := ""
							if len(gens) > 0 {
								curGen = gens[len(gens)-1].Name
							}
							i0 := map[string]int{}
							for _, g := range gens {
								i0[g.Name] = len(g.Events)
							}
							ep0, okCfg0 := initEpoch, lastOKCfg
							_, err := fm.Mount(ctx, &pb.MountRequest{Mountpoint: mp, Labels: l})
							mounts++
							if err == nil && !already && ep0 == initEpoch && ep0%2 == 0 && okCfg0 != "" {
								// no initialisation overlapped this request: the mount belongs to the configuration of
								// the last Init that reported success
								for _, g := range gens {
									for _, e := range g.Events[i0[g.Name]:] {
										if e.Op == "mount" && e.OK && e.MP == mp && e.Task == t.Label && genCfg[g.Name] != okCfg0 && !failedSince[genCfg[g.Name]] {
											s.Fail("new-mount-on-old-config", "Mount(%d) was served by %s, built from configuration %s, although the last initialisation that reported success carried %s", idx, g.Name, genCfg[g.Name], okCfg0)
											return
										}
									}
								}
							}
							s.Event("%s Mount %d -> ok=%v", t.Label, idx, err == nil)
							if err == nil && !already {
								// a new mount uses the filesystem created from the newest configuration
								for _, g := range gens {
									for _, e := range g.Events[i0[g.Name]:] {
										if e.Op == "mount" && e.OK && e.MP == mp && e.Task == t.Label && g.Name != curGen && len(gens) > 0 && g != gens[len(gens)-1] {
											s.Fail("new-mount-on-old-instance", "Mount(%d) after re-initialisation was served by %s, the newest instance is %s", idx, g.Name, gens[len(gens)-1].Name)
											return
										}
									}
								}
								if _, ok := acked[mp]; !ok {
									owner := ""
									for _, g := range gens {
										if _, ok := g.Live[mp]; ok {
											owner = g.Name
										}
									}
									acked[mp] = ack{labels: l, gen: owner}
								}
							}
						case op == 3:
							_, err := fm.Check(ctx, &pb.CheckRequest{Mountpoint: mp, Labels: labelsOf(idx, 0)})
							s.Event("%s Check %d -> ok=%v", t.Label, idx, err == nil)
						default:
							a, was := acked[mp]
							i0 := map[string]int{}
							for _, g := range gens {
								i0[g.Name] = len(g.Events)
							}
							_, err := fm.Unmount(ctx, &pb.UnmountRequest{Mountpoint: mp})
							s.Event("%s Unmount %d -> ok=%v", t.Label, idx, err == nil)
							_ = was
							_ = a
							// delivered to the instance that holds the mount: a refusal by an instance that
							// does not have it while another instance does is a routing error
							for _, g := range gens {
								for _, e := range g.Events[i0[g.Name]:] {
									if e.Op == "unmount" && e.MP == mp && e.Task == t.Label && !e.OK {
										for _, h := range gens {
											if _, liveElsewhere := h.Live[mp]; liveElsewhere && h != g {
												s.Fail("unmount-on-wrong-instance", "Unmount(%d) was delivered to %s, which does not hold the mount; %s does", idx, g.Name, h.Name)
												return
											}
										}
									}
								}
							}
							if err == nil {
								delete(acked, mp)
							}
						}
					}
				}))
			}
			// concurrently, the snapshotter may restart and re-initialise the manager with a new configuration
			if s.Tape.Draw("cfg", 2) == 0 {
				ts = append(ts, s.Go(fmt.Sprintf("r%dreinit", round), func(t *simrt.Task) {
					t.Yield("reinit")
					before := map[string]string{}
					for _, g := range gens {
						for _, mp := range g.LiveMounts() {
							before[mp] = g.Name
						}
					}
					reinits++
					initOnce(t.Label)
				}))
			}
			mt.Join(ts...)
			if s.Failed() {
				return
			}
			if !audit(fmt.Sprintf("quiescent point after round %d", round)) {
				return
			}
			// unmounting something neither recorded nor mounted succeeds
			if _, err := fm.Unmount(ctx, &pb.UnmountRequest{Mountpoint: mpOf(99)}); err != nil && ready {
				s.Fail("unmount-unknown-fails", "Unmount of a mountpoint that is neither recorded nor mounted failed: %v", err)
				return
			}
			// the manager process dies and is started again on the kept store file
			if s.Tape.Draw("cfg", 3) == 0 {
				recs, _ := fm.VerifRecords()
				fm.VerifDie()
				lastOKCfg, failedSince = "", map[string]bool{} // a new process: nothing is initialised
				gens = nil // its FUSE mounts die with it
				ready = false
				restarts++
				s.Event("manager restarts with %d record(s)", len(recs))
				fm = newManager()
				if fm == nil {
					return
				}
				acked = map[string]ack{}
				ok := initOnce("main-after-restart")
				if ok {
					// every recorded mountpoint is mounted again with its recorded labels
					if len(gens) == 0 {
						s.Fail("harness", "no filesystem instance after a successful Init")
						return
					}
					g := gens[len(gens)-1]
					for mp, l := range recs {
						got, live := g.Live[mp]
						if !live {
							s.Fail("record-not-remounted", "after the manager restarted, Init succeeded but recorded mountpoint %s is not mounted", filepath.Base(filepath.Dir(mp)))
							return
						}
						if fmt.Sprint(sortedKV(got)) != fmt.Sprint(sortedKV(l)) {
							s.Fail("remounted-with-other-labels", "mountpoint %s was re-mounted with labels %v, recorded were %v", filepath.Base(filepath.Dir(mp)), sortedKV(got), sortedKV(l))
							return
						}
						acked[mp] = ack{labels: l, gen: g.Name}
					}
				}
				if !audit("after manager restart") {
					return
				}
			}
		}
		quiet = true
		for _, g := range gens {
			g.Quiet = true
		}
		if err := fm.Close(ctx); err != nil {
			s.Fail("close-error", "Close: %v", err)
		}
	})
	out.Res = res
	out.Counters["inits"] += inits
	out.Counters["reinits_concurrent"] += reinits
	out.Counters["manager_restarts"] += restarts
	out.Counters["mount_requests"] += mounts
	out.Nontrivial = mounts > 1 && (reinits > 0 || restarts > 0)
	out.Signature = fmt.Sprintf("c%d/f%d/ctor%d", nClients, failDen, ctorFailDen)
	out.Sample = map[string]any{"clients": nClients, "backend_fail_den": failDen, "ctor_fail_den": ctorFailDen, "inits": inits, "manager_restarts": restarts, "log_tail": tailN(res.LogTail, 30)}
	return out
}

func sortedKV(m map[string]string) []string {
	var o []string
	for k, v := range m {
		o = append(o, k+"="+v)
	}
	sort.Strings(o)
	return o
}

func tailN(l []string, n int) []string {
	var o []string
	for _, x := range l {
		if !strings.Contains(x, "backend check") {
			o = append(o, x)
		}
	}
	if len(o) > n {
		return o[len(o)-n:]
	}
	return o
}

func TestC17(t *testing.T) {
	hx.Main(t, hx.Prop{
		ID:   "C17",
		Rule: "each run draws 1-3 client tasks, a backend failure rate for Mount/Check/Unmount and a failure rate of the filesystem constructor; requests before Init must fail; then 2-4 rounds in which every client issues 1-5 Mount / Check / Unmount requests over its own 5 mountpoints (requests for one mountpoint are never concurrent) while (half of the rounds) a re-Init with a new configuration runs concurrently; after each round (a quiescent point) the store is compared with the live mounts of all filesystem instances (serving => recorded; recorded => serving or restoration failed in a last Init that reported an error; nothing mounted by two instances), new mounts must use the newest instance, Unmount must reach the creating instance, Unmount of an unknown mountpoint must succeed; in a third of the rounds the manager process dies (store file kept, mounts gone) and a new manager's Init must re-mount every record with its recorded labels. non-trivial = more than one mount request and a concurrent re-Init or a manager restart; distinct = schedule hash x configuration",
		Run:  run,
		PanicIsViolation: true,
		HangIsViolation:  true,
		Components: map[string]string{"fusemanager.Server, fusestore on bolt": "real (instrumented copy)", "gRPC transport": "not used (methods called in-process)", "service.NewFileSystem": "stub (recording filesystem per configuration generation)", "kernel mount table": "stub"},
		Assumptions: []string{"when the manager process dies its FUSE mounts die with it", "store updates and backend calls are separate steps of the manager; a crash between them is sampled only at quiescent points (restart) in this harness"},
	})
}
