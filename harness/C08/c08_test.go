// C08 — snapshotter keeps snapshot metadata, directories and FUSE mounts in step.
// Real: snapshot.NewSnapshotter with containerd's storage on a real bolt file and real
// directories (tmpfs). Stub: snapshot.FileSystem (recording backend whose Mount/Check/Unmount
// outcomes are drawn), kernel mount table (seam in the instrumented copy).
package c08

import (
	"context"
	"fmt"
	"net/http"
	"path/filepath"
	"sort"
	"strings"
	"testing"
	"time"

	"github.com/containerd/containerd/v2/core/snapshots"
	"github.com/containerd/stargz-snapshotter/fs/config"
	"github.com/containerd/stargz-snapshotter/snapshot"
	"github.com/containerd/stargz-snapshotter/zzverif/common"
	bolt "go.etcd.io/bbolt"
	"verifsim/hx"
	"verifsim/simreg"
	"verifsim/simrt"
)

// presize creates metadata.db large enough that bolt never has to remap while a task is parked
// inside a read transaction (a writer waiting for the mmap lock would block on a real mutex).
func presize(root string) error {
	db, err := bolt.Open(filepath.Join(root, "metadata.db"), 0600, &bolt.Options{NoSync: true})
	if err != nil {
		return err
	}
	defer db.Close()
	if err := db.Update(func(tx *bolt.Tx) error {
		b, err := tx.CreateBucket([]byte("verif-filler"))
		if err != nil {
			return err
		}
		return b.Put([]byte("k"), make([]byte, 1<<20))
	}); err != nil {
		return err
	}
	return db.Update(func(tx *bolt.Tx) error { return tx.DeleteBucket([]byte("verif-filler")) })
}

var diskMutating = map[string]bool{"Mkdir": true, "MkdirAll": true, "MkdirTemp": true, "Rename": true, "Remove": true, "RemoveAll": true, "Lchown": true}

type rmEvent struct {
	seq      uint64
	dir      string
	liveThen bool
	attempt  bool // an Unmount of dir/fs was attempted before (by anyone)
}

func run(t *testing.T, tape *simrt.Tape) *hx.Outcome {
	out := &hx.Outcome{Counters: map[string]int{}}
	c := func(n int) int { return tape.Draw("cfg", n) }
	nTasks := 1 + c(3)
	async := c(2) == 1
	failDen := []int{0, 3, 8}[c(3)]
	diskFaultDen := []int{0, 0, 0, 40}[c(4)]
	nBase := c(3)
	// a third of the runs put the REAL filesystem (fs.NewFilesystem over the resolver and a simulated registry)
	// behind the snapshotter instead of drawn backend outcomes (own tape streams: older tapes replay unchanged)
	realBackend := tape.Draw("cfg.real", 3) == 0
	var img []common.DaemonLayer
	var fcfg config.Config
	var rcfg simreg.Config
	maxSteps := 300000
	if realBackend {
		rc := func(n int) int { return tape.Draw("cfg.real", n) }
		var err error
		img, err = common.GenImage(func(n int) int { return tape.Draw("gen.real", n) }, tape.Seed, 4, []int{8, 17, 64}[rc(3)])
		if err != nil {
			out.InfraErr = "image: " + err.Error()
			return out
		}
		fcfg = config.Config{
			HTTPCacheType: []string{"memory", ""}[rc(2)], FSCacheType: []string{"memory", ""}[rc(2)], PrefetchTimeoutSec: 10,
			ResolveResultEntryTTLSec: 2 + rc(60), AllowNoVerification: rc(2) == 0, NoBackgroundFetch: rc(3) == 0, NoPrefetch: rc(4) == 0,
			BlobConfig:           config.BlobConfig{ChunkSize: []int64{16, 300, 50000}[rc(3)], FetchTimeoutSec: 30, MaxRetries: 1, MinWaitMSec: 10, MaxWaitMSec: 100, ValidInterval: int64([]int{1, 60}[rc(2)])},
			DirectoryCacheConfig: config.DirectoryCacheConfig{MaxLRUCacheEntry: 1 + rc(3), MaxCacheFds: 1 + rc(3), SyncAdd: rc(2) == 1, Direct: rc(3) == 0},
		}
		rcfg = simreg.Config{Base: simreg.Personality(rc(int(simreg.NumPersonalities))), Redirect: rc(3) == 0}
		if rc(2) == 1 {
			rcfg.FaultDen = []int{6, 20}[rc(2)]
			rcfg.LatencyDen = []int{0, 4}[rc(2)]
		}
		failDen, diskFaultDen = 0, 0 // outcomes come from the real filesystem; the disk seam belongs to every package here
		maxSteps = 4000000
	}
	root, cleanup := hx.RunDir()
	defer cleanup()
	if err := presize(root); err != nil {
		out.InfraErr = "presize: " + err.Error()
		return out
	}
	var drv *common.SnapDriver
	var rmEvents []rmEvent
	res := simrt.Run(t, tape, simrt.Options{MaxSteps: maxSteps, HangAfter: 3 * time.Hour}, func(s *simrt.Sim, mt *simrt.Task) {
		fs := common.NewRecFS(s, "fs0", failDen)
		fs.Dirty = s.Tape.Draw("cfg", 2) == 1
		fs.Latency = s.Tape.Draw("cfg", 2) == 1
		snapshot.VerifLiveMounts = fs.LiveMounts
		snapshot.VerifForceUnmount = fs.ForceUnmount
		// disk seam: scheduling point before every disk call and after every mutating one (write
		// transactions stay open across these calls: the writer lock is taken at the simulation
		// level, see the overlay), fault point and observer of directory removals
		snapshot.VerifTxYield = true
		s.OSHook = func(t *simrt.Task, op string, after bool, paths []string) error {
			if after {
				if diskMutating[op] {
					t.Yield("os." + op + ".done")
				}
				return nil
			}
			t.Yield("os." + op)
			if len(paths) == 0 {
				return nil
			}
			p := paths[0]
			if op == "RemoveAll" && strings.Contains(p, "/snapshots/") {
				mp := filepath.Join(p, "fs")
				_, live := fs.Live[mp]
				attempt := false
				for _, e := range fs.Events {
					if e.Op == "unmount" && e.MP == mp {
						attempt = true
					}
				}
				rmEvents = append(rmEvents, rmEvent{seq: s.Event("rmdir %s live-mount=%v", common.RelSnap(p), live), dir: p, liveThen: live, attempt: attempt})
			}
			if diskFaultDen > 0 && !fs.Quiet && (op == "Mkdir" || op == "MkdirTemp" || op == "Rename" || op == "Lchown" || op == "RemoveAll") &&
				s.Tape.Draw("osfault:"+t.Label, diskFaultDen) == 0 {
				s.Stat("fault.os."+op, 1)
				s.Event("fault os.%s", op)
				return fmt.Errorf("injected %s failure", op)
			}
			return nil
		}
		var dm *common.Daemon
		s.Procs = 1 // worker pools of the real backend size themselves by GOMAXPROCS: a per-run constant here
		if realBackend {
			s.Procs = 1 + s.Tape.Draw("cfg.real", 3)
			reg := simreg.New(s, rcfg)
			var err error
			dm, err = common.NewDaemon(s, filepath.Join(root, "stargz"), img, fcfg, reg, nil, s.Tape.Draw("cfg.real", 2) == 1)
			if err != nil {
				s.Fail("harness", "NewFilesystem: %v", err)
				return
			}
			dm.FuseFailDen = []int{0, 0, 6}[s.Tape.Draw("cfg.real", 3)]
			ca := &checkAudit{s: s, dm: dm, valid: time.Duration(fcfg.BlobConfig.ValidInterval) * time.Second}
			fs.Inner = ca
			// (a request accepted before an outage may be answered during it: the filesystem then has talked to
			// the registry successfully, and a connectivity check is not due for another interval)
			reg.PostHook = func(r *simreg.Request, req *http.Request, resp *http.Response) *http.Response {
				if resp != nil && resp.StatusCode < 400 {
					ca.lastAnswer = s.Now()
				}
				return resp
			}
			if rcfg.FaultDen > 0 {
				// connectivity loss and recovery while the clients work; sometimes the source lookup has
				// nothing to offer during the outage either
				s.Go("network", func(t *simrt.Task) {
					for i := 0; i < 1+s.Tape.Draw(t.Label, 3) && !fs.Quiet; i++ {
						t.Sleep(time.Duration(1+s.Tape.Draw(t.Label, 20)) * time.Second)
						if fs.Quiet {
							return
						}
						reg.Down, ca.downAt = true, s.Now()
						ca.epoch++
						dm.NoSources = s.Tape.Draw(t.Label, 2) == 0
						t.Sleep(time.Duration(1+s.Tape.Draw(t.Label, 30)) * time.Second)
						reg.Down, dm.NoSources = false, false
						ca.epoch++
					}
				})
			}
		}
		ctx := context.Background()
		var opts []snapshot.Opt
		if async {
			opts = append(opts, snapshot.AsynchronousRemove)
		}
		sn, err := snapshot.NewSnapshotter(ctx, root, fs, opts...)
		if err != nil {
			if diskFaultDen > 0 {
				return
			}
			s.Fail("harness", "NewSnapshotter: %v", err)
			return
		}
		drv = common.NewSnapDriver(s, sn, fs, root)
		if realBackend {
			drv.TargetLabels = func(t *simrt.Task, target string) (map[string]string, bool, string) {
				v := []string{"ok", "ok", "ok", "ok", "wrong-toc", "skip", "none"}[s.Tape.Draw("lbl:"+t.Label, 7)]
				return dm.Labels(int(target[len(target)-1]-'0'), v), true, ""
			}
		}
		fs.OnUnmount = func(mp string, labels map[string]string) {
			call := labels[common.CallLabel]
			if call == "" || drv.Closing {
				return
			}
			sn.Walk(ctx, func(_ context.Context, info snapshots.Info) error {
				if info.Labels[common.CallLabel] == call {
					s.Fail("unmount-of-live-snapshot", "backend mount %s is being unmounted although the snapshot it was mounted for (%s %q) is still in the metadata store", common.RelSnap(mp), info.Kind, info.Name)
				}
				return nil
			})
		}
		drv.Faulty = diskFaultDen > 0
		// base chain of ordinary committed snapshots
		var committed []string
		parent := ""
		for i := 0; i < nBase; i++ {
			k, n := fmt.Sprintf("basekey%d", i), fmt.Sprintf("base%d", i)
			drv.Create(ctx, mt, false, k, parent)
			drv.Commit(ctx, mt, n, k)
			if _, err := sn.Stat(ctx, n); err == nil {
				committed = append(committed, n)
				parent = n
			}
		}
		var ts []*simrt.Task
		for k := 0; k < nTasks; k++ {
			k := k
			ts = append(ts, s.Go(fmt.Sprintf("client%d", k), func(t *simrt.Task) {
				dr := func(n int) int { return s.Tape.Draw(t.Label, n) }
				var active, mine []string
				pick := func() string {
					all := append(append([]string{}, committed...), mine...)
					if len(all) == 0 || dr(4) == 0 {
						return ""
					}
					return all[dr(len(all))]
				}
				n := 3 + dr(7)
				for i := 0; i < n && !s.Failed(); i++ {
					key := fmt.Sprintf("c%dk%d", k, i)
					if realBackend && s.Tape.Draw("idle:"+t.Label, 4) == 0 {
						t.Sleep(time.Duration(1+s.Tape.Draw("idle:"+t.Label, 15)) * time.Second) // outages come and go meanwhile
					}
					switch op := dr(12); {
					case op < 4: // remote-snapshot path; targets are shared between clients so that they race
						target := fmt.Sprintf("layer%d", dr(4))
						drv.PrepareTarget(ctx, t, key, pick(), target)
						if _, err := sn.Stat(ctx, target); err == nil {
							found := false
							for _, x := range committed {
								if x == target {
									found = true
								}
							}
							if !found {
								committed = append(committed, target)
							}
						}
						if _, err := sn.Stat(ctx, key); err == nil {
							active = append(active, key)
						}
					case op == 4:
						drv.Create(ctx, t, false, key, pick())
						if _, err := sn.Stat(ctx, key); err == nil {
							active = append(active, key)
						}
					case op == 5:
						drv.Create(ctx, t, true, key, pick())
						if _, err := sn.Stat(ctx, key); err == nil {
							active = append(active, key)
						}
					case op == 6 && len(active) > 0:
						a := active[dr(len(active))]
						name := fmt.Sprintf("c%dn%d", k, i)
						drv.Commit(ctx, t, name, a)
						if _, err := sn.Stat(ctx, name); err == nil {
							mine = append(mine, name)
							committed = append(committed, name)
						}
					case op == 7:
						all := append(append([]string{}, active...), committed...)
						if len(all) > 0 {
							drv.Mounts(ctx, t, all[dr(len(all))])
						}
					case op == 8 || op == 9:
						all := append(append([]string{}, active...), committed...)
						if len(all) > 0 {
							drv.Remove(ctx, t, all[dr(len(all))])
						}
					case op == 10:
						err := sn.(snapshots.Cleaner).Cleanup(ctx)
						s.Event("%s Cleanup -> %v", t.Label, err == nil)
					default:
						all := append(append([]string{}, active...), committed...)
						if len(all) > 0 {
							x := all[dr(len(all))]
							if info, err := sn.Stat(ctx, x); err == nil {
								if info.Labels == nil {
									info.Labels = map[string]string{}
								}
								info.Labels["containerd.io/snapshot/verif.touch"] = fmt.Sprint(i)
								_, err := sn.Update(ctx, info, "labels.containerd.io/snapshot/verif.touch")
								s.Event("%s Update %s -> %v", t.Label, x, err == nil)
							}
						}
						sn.Walk(ctx, func(context.Context, snapshots.Info) error { return nil })
					}
				}
			}))
		}
		mt.Join(ts...)
		if s.Failed() {
			return
		}
		// ---- quiescent point: global invariants ----
		fs.Quiet = true
		if realBackend {
			dm.Quiet, dm.Reg.Down, dm.Reg.NoFaults = true, false, true
			dm.Reg.Cfg.LatencyDen = 0
			// the kernel's FUSE mounts are exactly the backend mounts the snapshotter was told about
			for mp := range dm.Kernel {
				if _, ok := fs.Live[mp]; !ok {
					s.Fail("fuse-mount-leaked", "the filesystem left a FUSE mount on %s although its Mount call reported failure or its Unmount call reported success", common.RelSnap(mp))
					return
				}
			}
			for _, mp := range fs.LiveMounts() {
				if _, ok := dm.Kernel[mp]; !ok {
					s.Fail("mount-without-fuse", "backend mount %s is reported live but nothing is mounted there", common.RelSnap(mp))
					return
				}
				// ... and each serves the layer its snapshot's labels name
				want := dm.LayerIndex(fs.Live[mp][common.LabelDigest])
				if got := dm.ServedLayer(mp); got != want {
					s.Fail("mount-serves-other-layer", "the mount on %s was made for layer %d of the image (label %s) but serves layer %d (-2: unreadable state file)", common.RelSnap(mp), want, common.LabelDigest, got)
					return
				}
				out.Counters["real_mounts_audited"]++
			}
		}
		// (G1) a backend mount is unmounted only after its snapshot has been removed: checked at the
		// instant of every successful Unmount against the metadata store (fs.OnUnmount below)
		// (G2) ... and always before its directory is deleted
		for _, r := range rmEvents {
			if r.liveThen && !r.attempt {
				s.Fail("rmdir-before-unmount", "directory %s was deleted at seq %d while a backend mount was live on it and no Unmount had been attempted", common.RelSnap(r.dir), r.seq)
				return
			}
		}
		// (G3) after cleanup the directories on disk are exactly those of live snapshots
		// (a metadata store in which no snapshot was ever created has no bucket yet: Cleanup reports not-found)
		if err := sn.(snapshots.Cleaner).Cleanup(ctx); err != nil && diskFaultDen == 0 && len(drv.Acked) > 0 {
			s.Fail("cleanup-error", "Cleanup failed: %v", err)
			return
		}
		live, err := drv.LiveSnapshots(ctx)
		if err != nil && len(drv.Acked) > 0 {
			s.Fail("walk-error", "Walk: %v", err)
			return
		}
		dirs := drv.SnapshotDirs()
		if diskFaultDen == 0 {
			if len(dirs) != len(live) {
				var names []string
				for n := range live {
					names = append(names, n)
				}
				sort.Strings(names)
				s.Fail("dirs-differ-from-snapshots", "after Cleanup %d directories %v exist under snapshots/ but %d snapshots are live %v", len(dirs), dirs, len(live), names)
				return
			}
			for name := range live {
				if d := drv.Dirs[name]; d != "" {
					found := false
					for _, x := range dirs {
						if x == filepath.Base(d) {
							found = true
						}
					}
					if !found {
						s.Fail("dirs-differ-from-snapshots", "live snapshot %q lost its directory %s", name, common.RelSnap(d))
						return
					}
				}
			}
		}
		// every committed remote snapshot has exactly one live mount on its directory; no mount
		// sits on a directory that does not exist
		for name, info := range live {
			if _, remote := info.Labels[common.RemoteLabel]; remote && info.Kind == snapshots.KindCommitted {
				if d := drv.Dirs[name]; d != "" {
					if _, ok := fs.Live[filepath.Join(d, "fs")]; !ok {
						unmountFailed := false
						for _, e := range fs.Events {
							if e.MP == filepath.Join(d, "fs") && e.Op == "unmount" {
								unmountFailed = true
							}
						}
						if !unmountFailed {
							s.Fail("remote-without-mount", "committed remote snapshot %q has no live backend mount on %s", name, common.RelSnap(d))
							return
						}
					}
				}
			}
		}
		for _, mp := range fs.LiveMounts() {
			found := false
			for _, x := range dirs {
				if x == filepath.Base(filepath.Dir(mp)) {
					found = true
				}
			}
			if !found && diskFaultDen == 0 && failDen == 0 {
				s.Fail("mount-on-missing-dir", "a backend mount is live on %s but that directory is gone", common.RelSnap(mp))
				return
			}
		}
		// closing unmounts every committed remote snapshot
		drv.Closing = true
		sn.Close()
		for name, info := range live {
			if _, remote := info.Labels[common.RemoteLabel]; remote && info.Kind == snapshots.KindCommitted {
				if d := drv.Dirs[name]; d != "" {
					if _, ok := fs.Live[filepath.Join(d, "fs")]; ok {
						s.Fail("mounted-after-close", "remote snapshot %q is still mounted after Close", name)
						return
					}
				}
			}
		}
	})
	out.Res = res
	if drv != nil {
		for k, v := range drv.Counters {
			out.Counters[k] += v
		}
		out.Counters["backend_events"] += len(drv.FS.Events)
		out.Nontrivial = drv.Counters["remote_created"] > 0 && len(drv.FS.Events) > 2
	}
	out.Counters["rmdir_events"] += len(rmEvents)
	out.Signature = fmt.Sprintf("t%d/async%v/f%d/d%d/b%d/real%v", nTasks, async, failDen, diskFaultDen, nBase, realBackend)
	if realBackend {
		out.Counters["real_backend_runs"]++
	}
	out.Sample = map[string]any{"clients": nTasks, "async_remove": async, "backend_fail_den": failDen, "disk_fault_den": diskFaultDen, "base_chain": nBase, "log_tail": tailN(res.LogTail, 30)}
	return out
}

// checkAudit sits between the recorder and the real filesystem: a Check of a layer that is not fully
// cached must not report success when the registry has been unreachable, without interruption, for
// longer than the connectivity-check interval and still is, and has not answered any request successfully
// for that long either (no earlier success can still be valid).
type checkAudit struct {
	s      *simrt.Sim
	dm     *common.Daemon
	valid  time.Duration
	downAt time.Duration
	epoch  int
	// lastAnswer is when the registry last answered any request successfully
	lastAnswer time.Duration
}

func (c *checkAudit) Mount(ctx context.Context, mp string, labels map[string]string) error {
	return c.dm.FS.Mount(ctx, mp, labels)
}
func (c *checkAudit) Unmount(ctx context.Context, mp string) error { return c.dm.FS.Unmount(ctx, mp) }
func (c *checkAudit) Check(ctx context.Context, mp string, labels map[string]string) error {
	e0, down0, since := c.epoch, c.dm.Reg.Down, c.s.Now()-c.downAt
	f, sz, ok := c.dm.Fetched(mp)
	err := c.dm.FS.Check(ctx, mp, labels)
	if quiet := c.s.Now() - c.lastAnswer; err == nil && ok && f < sz && down0 && c.dm.Reg.Down && e0 == c.epoch && since > c.valid+2*time.Second && quiet > c.valid+2*time.Second {
		c.s.Fail("check-ok-while-unreachable", "Check of the remote layer on %s reported success although the registry had been unreachable for %v when it began (connectivity-check interval %v), still was when it returned, and the layer is not fully cached (%d of %d bytes; source lookup empty: %v): Mounts would be handed out for a chain whose remote layer cannot be reached", common.RelSnap(mp), since, c.valid, f, sz, c.dm.NoSources)
	}
	return err
}

func tailN(l []string, n int) []string {
	if len(l) > n {
		return l[len(l)-n:]
	}
	return l
}

func TestC08(t *testing.T) {
	hx.Main(t, hx.Prop{
		ID:   "C08",
		Rule: "each run draws 1-3 concurrent client tasks, sync/async removal, a backend failure rate for Mount/Check/Unmount (none, 1/3, 1/8; failing mounts may first touch the directory), optional backend latency, a disk fault rate (none or 1/40 on mkdir/rename/chown/removeall) and a base chain of 0-2 ordinary snapshots; each client issues 3-9 calls among Prepare with target (targets shared so that clients race for them), Prepare, View, Commit, Mounts, Remove, Cleanup, Update+Walk over any parent graph. Per call: target result (exists => committed; created by this call => marked remote with a live mount on its directory; fallback => active, not remote, no live mount), Unavailable iff a connectivity check of a remote ancestor failed, every remote ancestor checked, lowerdir nearest parent first. At quiescence: unmounts only after removal, no directory deleted under a live mount without an unmount attempt, after Cleanup directories = live snapshots, committed remote snapshots mounted exactly once, nothing mounted after Close. In a third of the runs the backend is not a stub: the REAL filesystem (fs.NewFilesystem: Mount with source labels, TOC verification, prefetch / background fetch, pre-resolution of neighbouring layers; Check with connectivity check and refresh; Unmount) over the real resolver and a simulated registry (personalities, transient faults, latency, outages) sits behind the recorder, Prepare calls carry real source labels (right / wrong / missing TOC digest, skip-verify) for one of four layers of an image, FUSE mounting itself may fail; Mount/Check/Unmount outcomes are then whatever the real code returns, and at quiescence the simulated kernel's FUSE mounts must be exactly the backend mounts the snapshotter holds, each serving the layer its labels name. non-trivial = a remote snapshot was created and the backend was called more than twice; distinct = schedule hash x configuration",
		Run:  run,
		PanicIsViolation: true,
		HangIsViolation:  true,
		Components: map[string]string{"snapshot.snapshotter": "real (instrumented copy)", "containerd snapshots/storage on bolt": "real", "directories": "real tmpfs", "snapshot.FileSystem backend": "two configurations: stub (recording, drawn outcomes) in 2/3 of the runs; REAL fs.filesystem + layer resolver + remote blob + caches over the simulated registry behind the recorder in 1/3", "registry": "stub (simreg)", "FUSE kernel side (fuse.NewServer, umount)": "stub (seam in package fs: simulated kernel mount table holding the root nodes)", "kernel mount table": "stub (seam in the instrumented copy)"},
		Assumptions: []string{"disk calls inside package snapshot are fault points but not scheduling points (bolt write transactions are open across them); tasks interleave at backend calls and between operations", "metadata.db is pre-sized so that bolt never remaps under a parked reader"},
	})
}
