// C16 — store layers can be acquired, released and re-acquired in any order.
// Real: store.LayerManager, refPool, the store's node handlers (Lookup of diff|blob|info, Create of
// "use", Rmdir = release) driven in-process, layer resolver stack, containerd's docker resolver for
// manifest/config. Stub: registry (manifests, configs, blobs), FUSE mount.
package c16

import (
	"archive/tar"
	"bytes"
	"context"
	"encoding/base64"
	"encoding/json"
	"fmt"
	"net/http"
	"path/filepath"
	"sort"
	"strings"
	"syscall"
	"testing"
	"time"

	"github.com/containerd/stargz-snapshotter/fs/config"
	memorymetadata "github.com/containerd/stargz-snapshotter/metadata/memory"
	"github.com/containerd/stargz-snapshotter/store"
	"github.com/containerd/stargz-snapshotter/zzverif/common"
	fusefs "github.com/hanwen/go-fuse/v2/fs"
	"github.com/hanwen/go-fuse/v2/fuse"
	digest "github.com/opencontainers/go-digest"
	ocispec "github.com/opencontainers/image-spec/specs-go/v1"
	"verifsim/hx"
	"verifsim/simreg"
	"verifsim/simrt"
)

type imageT struct {
	ref      string
	repo     string
	layers   []*common.Built
	files    []map[string][]byte
	manifest []byte
	mdigest  digest.Digest
	config   []byte
}

func buildImage(d func(int) int, seed uint64, idx int, out *hx.Outcome) *imageT {
	im := &imageT{repo: fmt.Sprintf("repo/img%d", idx)}
	im.ref = "reg.example/" + im.repo + ":latest"
	n := 2 + d(2)
	var cfg ocispec.Image
	cfg.Architecture, cfg.OS = "amd64", "linux"
	cfg.RootFS.Type = "layers"
	var m ocispec.Manifest
	m.SchemaVersion = 2
	m.MediaType = ocispec.MediaTypeImageManifest
	for i := 0; i < n; i++ {
		cs := []int{8, 17, 64}[d(3)]
		spec := common.GenTar(d, seed+uint64(idx*100+i)*7927, common.GenOpts{ChunkSize: cs, MaxEntries: 5})
		tb := spec.Bytes()
		b, err := common.BuildBlob(tb, common.BuildCfg{ChunkSize: cs, Workers: 1})
		if err != nil {
			out.InfraErr = "build: " + err.Error()
			return nil
		}
		model, _ := common.Model(tb)
		fs := map[string][]byte{}
		model.Walk(func(n *common.MNode) {
			if n.Type == tar.TypeReg && len(n.Data) > 0 {
				fs[n.Path] = n.Data
			}
		})
		im.layers = append(im.layers, b)
		im.files = append(im.files, fs)
		cfg.RootFS.DiffIDs = append(cfg.RootFS.DiffIDs, b.DiffID)
		m.Layers = append(m.Layers, ocispec.Descriptor{MediaType: ocispec.MediaTypeImageLayerGzip, Digest: b.Digest, Size: int64(len(b.Blob))})
	}
	im.config, _ = json.Marshal(&cfg)
	m.Config = ocispec.Descriptor{MediaType: ocispec.MediaTypeImageConfig, Digest: digest.FromBytes(im.config), Size: int64(len(im.config))}
	im.manifest, _ = json.Marshal(&m)
	im.mdigest = digest.FromBytes(im.manifest)
	return im
}

func run(t *testing.T, tape *simrt.Tape) *hx.Outcome {
	out := &hx.Outcome{Counters: map[string]int{}}
	d := func(n int) int { return tape.Draw("gen", n) }
	var images []*imageT
	for i := 0; i < 2; i++ {
		im := buildImage(d, tape.Seed, i, out)
		if im == nil {
			return out
		}
		images = append(images, im)
	}
	c := func(n int) int { return tape.Draw("cfg", n) }
	calm := c(2) == 0
	nClients := 1 + c(3)
	rcfg := simreg.Config{Base: simreg.Multipart}
	if !calm {
		rcfg.FaultDen = []int{6, 20}[c(2)]
		rcfg.LatencyDen = []int{0, 4}[c(2)]
	}
	root, cleanup := hx.RunDir()
	defer cleanup()
	lookups, releases, uses, reacquired := 0, 0, 0, 0
	res := simrt.Run(t, tape, simrt.Options{MaxSteps: 600000, HangAfter: 3 * time.Hour}, func(s *simrt.Sim, mt *simrt.Task) {
		s.Procs = 1
		s.UseDisk(simrt.DiskCfg{Yield: false})
		reg := simreg.New(s, rcfg)
		for _, im := range images {
			for _, b := range im.layers {
				reg.Blobs[b.Digest.String()] = b.Blob
			}
			reg.Blobs[digest.FromBytes(im.config).String()] = im.config
		}
		manifestReqs := 0
		reg.Extra = func(rec *simreg.Request, req *http.Request) *http.Response {
			for _, im := range images {
				pfx := "/v2/" + im.repo + "/manifests/"
				if req.URL.Host == "reg.example" && strings.HasPrefix(req.URL.Path, pfx) {
					refOrDigest := strings.TrimPrefix(req.URL.Path, pfx)
					if refOrDigest != "latest" && refOrDigest != im.mdigest.String() {
						return &http.Response{StatusCode: 404, Status: "404 Not Found", Header: http.Header{}, Body: http.NoBody, Request: req}
					}
					manifestReqs++
					h := http.Header{}
					h.Set("Content-Type", ocispec.MediaTypeImageManifest)
					h.Set("Docker-Content-Digest", im.mdigest.String())
					h.Set("Content-Length", fmt.Sprint(len(im.manifest)))
					resp := &http.Response{StatusCode: 200, Status: "200 OK", Header: h, ContentLength: int64(len(im.manifest)), Request: req, Proto: "HTTP/1.1", ProtoMajor: 1, ProtoMinor: 1}
					if req.Method == "HEAD" {
						resp.Body = http.NoBody
					} else {
						resp.Body = readCloser{bytes.NewReader(im.manifest)}
					}
					return resp
				}
			}
			return nil
		}
		hosts := common.Hosts(reg, 20*time.Second, nil, false)
		fcfg := config.Config{HTTPCacheType: "memory", FSCacheType: "memory", NoPrometheus: true, NoBackgroundFetch: s.Tape.Draw("cfg", 2) == 0, NoPrefetch: s.Tape.Draw("cfg", 2) == 0, ResolveResultEntryTTLSec: []int{0, 5}[s.Tape.Draw("cfg", 2)],
			BlobConfig: config.BlobConfig{ChunkSize: 50000, FetchTimeoutSec: 20, MaxRetries: 1, MinWaitMSec: 10, MaxWaitMSec: 100, ValidInterval: 600}}
		lm, err := store.NewLayerManager(context.Background(), filepath.Join(root, "store"), hosts, memorymetadata.NewReader, fcfg)
		if err != nil {
			s.Fail("harness", "NewLayerManager: %v", err)
			return
		}
		rootNode := store.VerifRoot(lm)
		fusefs.NewNodeFS(rootNode, &fusefs.Options{})
		ctx := context.Background()
		type relEv struct {
			seq uint64
			img int
			at  time.Duration
		}
		var relZero []relEv // releases that brought a use count to zero
		relInflight := map[int]int{}       // releases to zero of a layer of this image that were invoked and have not returned yet
		relInflightKey := map[[2]int]int{} // ... per (image, layer)
		lookupInv := map[string]uint64{}
		faultedImage := map[int]bool{} // a lookup of this image failed while registry faults were on
		lastFault := map[int]uint64{}  // ... and when (event sequence number)
		lastFaultAt := map[int]time.Duration{}
		imgUses := map[int]int{}       // outstanding uses per image (all layers)
		var imgZero []relEv            // releases that brought an image's total use count to zero
		strays := 0
		// with a single client there is no interleaving: a use taken right after a successful lookup of the
		// layer's diff is a use of a resolved, cached layer, and releasing it must succeed
		strict := map[[2]int]bool{}
		// model: outstanding uses per (image, layer)
		count := map[[2]int]int{}
		layerNode := func(ii, li int, tocName string) (fusefs.InodeEmbedder, fusefs.InodeEmbedder, syscall.Errno) {
			var eo fuse.EntryOut
			rn, errno := rootNode.(fusefs.NodeLookuper).Lookup(ctx, base64.StdEncoding.EncodeToString([]byte(images[ii].ref)), &eo)
			if errno != 0 {
				return nil, nil, errno
			}
			ln, errno := rn.Operations().(fusefs.NodeLookuper).Lookup(ctx, tocName, &eo)
			if errno != 0 {
				return rn.Operations(), nil, errno
			}
			return rn.Operations(), ln.Operations(), 0
		}
		lookup := func(t *simrt.Task, ii, li int, kind string) (fusefs.InodeEmbedder, syscall.Errno) {
			toc := images[ii].layers[li].TOCDigest.String()
			_, ln, errno := layerNode(ii, li, toc)
			if errno != 0 {
				return nil, errno
			}
			var eo fuse.EntryOut
			// now and then the client first abandons a lookup of the same node (FUSE interrupt: the request's
			// context is cancelled at once or a little later); what that lookup returns is its own business,
			// the lookups that follow must not suffer from it (own tape stream: older tapes replay unchanged)
			if as := "abandon:" + t.Label; s.Tape.Draw(as, 5) == 1 {
				cctx, cancel := context.WithCancel(ctx)
				var tm *time.Timer
				if d := s.Tape.Draw(as, 4); d == 0 {
					cancel()
				} else {
					tm = time.AfterFunc(time.Duration(d*d)*5*time.Millisecond, cancel)
				}
				var eo2 fuse.EntryOut
				_, e2 := ln.(fusefs.NodeLookuper).Lookup(cctx, kind, &eo2)
				if tm != nil {
					tm.Stop()
				}
				cancel()
				s.Stat("lookup.abandoned", 1)
				s.Event("%s abandoned lookup img%d layer%d %s -> %v", t.Label, ii, li, kind, e2)
			}
			lookupInv[t.Label] = s.Seq()
			in, errno := ln.(fusefs.NodeLookuper).Lookup(ctx, kind, &eo)
			lookups++
			s.Event("%s lookup img%d layer%d %s -> %v", t.Label, ii, li, kind, errno)
			if errno != 0 {
				return nil, errno
			}
			return in.Operations(), 0
		}
		// a release that brings an image's use count to zero drops its layers: a diff node that a client
		// looked up WITHOUT holding a use may stop working at that moment (the property promises the
		// lookup, and protects layers with outstanding uses only)
		overlapped := func(t *simrt.Task, ii, li int) bool {
			if count[[2]int{ii, li}]-relInflightKey[[2]int{ii, li}] > 0 {
				return false // (uses that nobody is giving back at this moment protect the layer)
			}
			if relInflight[ii] > 0 {
				return true
			}
			for _, r := range relZero {
				if r.img == ii && r.seq > lookupInv[t.Label] {
					return true
				}
			}
			return false
		}
		checkDiff := func(t *simrt.Task, n fusefs.InodeEmbedder, ii, li int) bool {
			// the diff directory is the layer's root: read one file through it
			fs := images[ii].files[li]
			var names []string
			for p := range fs {
				names = append(names, p)
			}
			sort.Strings(names)
			if len(names) == 0 {
				return true
			}
			p := names[0]
			cur := n
			var eo fuse.EntryOut
			for _, comp := range strings.Split(p, "/") {
				in, errno := cur.(fusefs.NodeLookuper).Lookup(ctx, comp, &eo)
				if errno != 0 {
					if overlapped(t, ii, li) {
						return true
					}
					s.Fail("diff-lookup-failed", "img%d layer%d: Lookup(%q) inside the diff directory failed: %v", ii, li, p, errno)
					return false
				}
				cur = in.Operations()
			}
			fh, _, errno := cur.(fusefs.NodeOpener).Open(ctx, 0)
			if errno != 0 {
				if calm && !overlapped(t, ii, li) {
					s.Fail("diff-read-failed", "img%d layer%d: Open(%q) failed: %v", ii, li, p, errno)
					return false
				}
				return true
			}
			rr, errno := fh.(fusefs.FileReader).Read(ctx, make([]byte, len(fs[p])+1), 0)
			if errno != 0 {
				if calm && !overlapped(t, ii, li) {
					s.Fail("diff-read-failed", "img%d layer%d: Read(%q) failed: %v", ii, li, p, errno)
					return false
				}
				return true
			}
			b, _ := rr.Bytes(make([]byte, len(fs[p])+1))
			if !bytes.Equal(b, fs[p]) {
				s.Fail("diff-wrong-bytes", "img%d layer%d: %q read through the store differs from the layer content", ii, li, p)
				return false
			}
			return true
		}
		var ts []*simrt.Task
		for k := 0; k < nClients; k++ {
			k := k
			ts = append(ts, s.Go(fmt.Sprintf("client%d", k), func(t *simrt.Task) {
				dr := func(n int) int { return s.Tape.Draw(t.Label, n) }
				mine := map[[2]int]int{} // uses held by this client
				n := 3 + dr(10)
				for i := 0; i < n && !s.Failed(); i++ {
					ii := dr(len(images))
					li := dr(len(images[ii].layers))
					key := [2]int{ii, li}
					switch op := dr(9); {
					case op == 8: // idle: lets the resolver's cache entries (TTL) and other timers expire
						d := []time.Duration{time.Second, 10 * time.Second, 200 * time.Second}[dr(3)]
						s.Event("%s idle %v", t.Label, d)
						t.Sleep(d)
					case op < 3: // lookup diff|blob|info
						kind := []string{"diff", "blob", "info"}[dr(3)]
						n, errno := lookup(t, ii, li, kind)
						if errno != 0 {
							faultedImage[ii] = true
							lastFault[ii] = s.Seq()
							lastFaultAt[ii] = s.Now()
							if calm {
								overl := relInflight[ii] > 0 // (invoked before this lookup and still running)
								for _, r := range relZero {
									if r.img == ii && r.seq > lookupInv[t.Label] {
										overl = true
									}
								}
								s.Fail("lookup-failed", "looking up %q of (img%d, TOC digest of layer %d) failed with %v although the image contains that layer (outstanding uses of it: %d) [overlapped a release-to-zero of this image by another client: %v]", kind, ii, li, errno, count[key], overl)
								return
							}
							continue
						}
						if kind == "diff" && !checkDiff(t, n, ii, li) {
							return
						}
					case op == 3: // a digest no layer of the image has
						bogus := digest.FromString(fmt.Sprintf("bogus-%d-%d", k, i)).String()
						_, ln, errno := layerNode(ii, 0, bogus)
						if errno == 0 {
							var eo fuse.EntryOut
							if _, errno := ln.(fusefs.NodeLookuper).Lookup(ctx, "diff", &eo); errno == 0 {
								s.Fail("unknown-digest-served", "img%d: lookup of diff for a TOC digest no layer has succeeded", ii)
								return
							}
						}
					case op == 4 || op == 5: // use
						if nClients == 1 && count[key] == 0 {
							if _, errno := lookup(t, ii, li, "diff"); errno != 0 {
								continue
							}
							strict[key] = true
						}
						toc := images[ii].layers[li].TOCDigest.String()
						_, ln, errno := layerNode(ii, li, toc)
						if errno != 0 {
							continue
						}
						var eo fuse.EntryOut
						ln.(fusefs.NodeCreater).Create(ctx, "use", 0, 0, &eo)
						count[key]++
						mine[key]++
						imgUses[ii]++
						uses++
						s.Event("%s use img%d layer%d -> %d", t.Label, ii, li, count[key])
					default: // release one of our uses
						if mine[key] == 0 {
							// a stray release of a digest the image does not have: it may be refused, and it must not
							// disturb the uses that are outstanding
							if count[key] == 0 && dr(3) == 0 {
								// (always a digest the image does not have: releasing a real layer one does not
								// hold would take away another client's use, which no client may do)
								toc := digest.FromString(fmt.Sprintf("stray-%d-%d", k, i)).String()
								if rn, _, _ := layerNode(ii, li, images[ii].layers[li].TOCDigest.String()); rn != nil {
									errno := rn.(fusefs.NodeRmdirer).Rmdir(ctx, toc)
									s.Event("%s stray release on img%d -> %v", t.Label, ii, errno)
									strays++
								}
							}
							continue
						}
						toc := images[ii].layers[li].TOCDigest.String()
						rn, _, errno := layerNode(ii, li, toc)
						if errno != 0 && rn == nil {
							continue
						}
						if count[key] == 1 {
							relZero = append(relZero, relEv{s.Seq(), ii, s.Now()})
							relInflight[ii]++
							relInflightKey[key]++
						}
						// (the store answers a successful release with ENOENT; releasing a use of a layer that was
						// never resolved reports an error after doing the bookkeeping, which is not judged)
						if errno := rn.(fusefs.NodeRmdirer).Rmdir(ctx, toc); errno != syscall.ENOENT && calm && nClients == 1 && strict[key] {
							s.Fail("release-failed", "releasing a use of (img%d, layer %d) that this client holds (outstanding uses of it: %d; the layer is resolved) failed: %v", ii, li, count[key], errno)
							return
						}
						if count[key] == 1 {
							strict[key] = false
						}
						if count[key] == 1 {
							relZero = append(relZero, relEv{s.Seq(), ii, s.Now()})
							relInflight[ii]--
							relInflightKey[key]--
						}
						count[key]--
						mine[key]--
						if imgUses[ii]--; imgUses[ii] == 0 {
							imgZero = append(imgZero, relEv{s.Seq(), ii, s.Now()})
						}
						releases++
						s.Event("%s release img%d layer%d -> %d", t.Label, ii, li, count[key])
					}
				}
				// give back everything this client still holds
				var held [][2]int
				for key := range mine {
					held = append(held, key)
				}
				sort.Slice(held, func(i, j int) bool { return held[i][0] < held[j][0] || held[i][0] == held[j][0] && held[i][1] < held[j][1] })
				for _, key := range held {
					for n := mine[key]; n > 0; n-- {
						toc := images[key[0]].layers[key[1]].TOCDigest.String()
						if rn, _, _ := layerNode(key[0], key[1], toc); rn != nil {
							if count[key] == 1 {
								relZero = append(relZero, relEv{s.Seq(), key[0], s.Now()})
								relInflight[key[0]]++
								relInflightKey[key]++
							}
							if errno := rn.(fusefs.NodeRmdirer).Rmdir(ctx, toc); errno != syscall.ENOENT && calm && nClients == 1 && strict[key] {
								s.Fail("release-failed", "releasing a use of (img%d, layer %d) that this client holds (outstanding uses of it: %d; the layer is resolved) failed: %v", key[0], key[1], count[key], errno)
								return
							}
							if count[key] == 1 {
								strict[key] = false
							}
							if count[key] == 1 {
								relZero = append(relZero, relEv{s.Seq(), key[0], s.Now()})
								relInflight[key[0]]--
								relInflightKey[key]--
							}
							count[key]--
							if imgUses[key[0]]--; imgUses[key[0]] == 0 {
								imgZero = append(imgZero, relEv{s.Seq(), key[0], s.Now()})
							}
							releases++
							s.Event("%s release(final) img%d layer%d -> %d", t.Label, key[0], key[1], count[key])
						}
					}
				}
			}))
		}
		mt.Join(ts...)
		if s.Failed() {
			return
		}
		// every use has been released: a new lookup of every layer must resolve the image again and work
		reg.NoFaults = true
		reg.Cfg.LatencyDen = 0
		mt.Sleep(time.Second)
		// registry faults that hit any request for an image (manifest, config or a layer blob: all layers of an
		// image are resolved in parallel on every lookup) may have poisoned its resolution cache
		for _, q := range reg.Log {
			if q.Fault == "" {
				continue
			}
			for ii, im := range images {
				if strings.Contains(q.Path, im.repo+"/") {
					faultedImage[ii] = true
					if q.Seq > lastFault[ii] {
						lastFault[ii] = q.Seq
					}
					if q.FaultSeq > lastFault[ii] {
						lastFault[ii] = q.FaultSeq
					}
					if at := time.Duration(q.AtNs); at > lastFaultAt[ii] {
						lastFaultAt[ii] = at
					}
				}
			}
		}
		for ii, im := range images {
			mark := manifestReqs + reg.BlobRequests()
			for li := range im.layers {
				n, errno := lookup(mt, ii, li, "diff")
				if errno != 0 {
					// the store forgets a failed resolution only when the image's last use is released
					reset := false
					// (a resolution that was in flight when the fault hit records its failure later, possibly
					// after a release: only a release well after the last fault counts, when every fetch has
					// timed out or finished)
					for _, r := range imgZero {
						if r.img == ii && r.seq > lastFault[ii] && r.at > lastFaultAt[ii]+90*time.Second {
							reset = true
						}
					}
					s.Fail("lookup-after-release-failed", "after every use was released (faults off), looking up diff of (img%d, layer %d) failed with %v: the image is not resolved again [registry faults were injected while this image was being resolved earlier: %v; the image's uses were released down to zero well (90 s) after the last of them: %v]", ii, li, errno, faultedImage[ii], reset)
					return
				}
				if !checkDiff(mt, n, ii, li) {
					return
				}
				reacquired++
			}
			_ = mark
		}
	})
	out.Res = res
	out.Counters["lookups"] += lookups
	out.Counters["uses"] += uses
	out.Counters["releases"] += releases
	out.Counters["reacquired_after_release"] += reacquired
	out.Nontrivial = uses > 0 && releases > 0 && lookups > 1
	out.Signature = fmt.Sprintf("c%d/calm%v/l%d+%d", nClients, calm, len(images[0].layers), len(images[1].layers))
	out.Sample = map[string]any{"clients": nClients, "calm": calm, "layers_per_image": []int{len(images[0].layers), len(images[1].layers)}, "lookups": lookups, "uses": uses, "releases": releases, "log_tail": tailN(res.LogTail, 30)}
	return out
}

type readCloser struct{ *bytes.Reader }

func (readCloser) Close() error { return nil }

func tailN(l []string, n int) []string {
	var o []string
	for _, x := range l {
		if !strings.Contains(x, " http ") {
			o = append(o, x)
		}
	}
	if len(o) > n {
		return o[len(o)-n:]
	}
	return o
}

func TestC16(t *testing.T) {
	hx.Main(t, hx.Prop{
		ID:   "C16",
		Rule: "each run builds two images of 2-3 eStargz layers (manifest, config and blobs served by the simulated registry), then 1-3 client tasks issue 3-12 operations each through the store's node handlers: lookup of diff / blob / info for (image reference, TOC digest), lookup of a digest no layer has, use (create the 'use' file), release (rmdir) of a use the client holds; racing lookups on one image, release down to zero followed by new lookups; in the non-calm half the registry fails and delays requests during resolution. Oracles: in calm runs every lookup of a digest the image contains succeeds whatever was used and released before and the diff directory serves the layer's bytes; unknown digests fail; at the end every client releases what it holds and, with faults off, every layer of both images must be looked up successfully again. non-trivial = at least one use, one release and two lookups; distinct = schedule hash x configuration",
		Run:  run,
		PanicIsViolation: true,
		HangIsViolation:  true,
		Components: map[string]string{"store.LayerManager, refPool, store node handlers": "real (instrumented copy), driven in-process", "fs/layer resolver stack, containerd docker resolver (manifest/config)": "real", "registry": "stub (simreg + manifest endpoint)", "FUSE mount of the store": "not mounted (harness-only root-node accessor)"},
		Assumptions: []string{"clients only release uses they hold (the use count a client can observe never goes negative by construction; the manager's own counter is exercised by release-to-zero followed by re-use)"},
	})
}
