package c15

import (
	"context"
	"fmt"
	"net/http"
	"path/filepath"
	"strings"
	"testing"
	"time"

	"github.com/containerd/stargz-snapshotter/fs/config"
	"github.com/containerd/stargz-snapshotter/zzverif/common"
	"verifsim/hx"
	"verifsim/simreg"
	"verifsim/simrt"
)

// runDaemon is the campaign of C15 that goes through the real filesystem (fs/fs.go): Mount starts the
// prefetch, Check is where a container start waits for it. A Check that returns before the configured
// prefetch timeout has passed must not return while the prefetch is still in flight (it returns when
// prefetch ends or fails, or after the timeout), whatever the connectivity check and the connection
// refresh inside Check did; it always returns within the timeout plus the time a connectivity check
// and a refresh may take; with a healthy registry the prioritized files are local afterwards.
func runDaemon(t *testing.T, tape *simrt.Tape) *hx.Outcome {
	out := &hx.Outcome{Counters: map[string]int{"campaign.daemon": 1}}
	c := func(n int) int { return tape.Draw("cfg.daemon", n) }
	img, err := common.GenImage(func(n int) int { return tape.Draw("gen.daemon", n) }, tape.Seed, 1, []int{8, 17, 64}[c(3)], true)
	if err != nil {
		out.InfraErr = "image: " + err.Error()
		return out
	}
	timeout := []int{3, 10, 30}[c(3)]
	fcfg := config.Config{
		HTTPCacheType: []string{"memory", ""}[c(2)], FSCacheType: []string{"memory", ""}[c(2)], PrefetchTimeoutSec: int64(timeout),
		ResolveResultEntryTTLSec: 600, NoBackgroundFetch: true, PrefetchSize: int64(c(2000)),
		BlobConfig:           config.BlobConfig{ChunkSize: []int64{16, 64, 300}[c(3)], FetchTimeoutSec: 30, MaxRetries: 1, MinWaitMSec: 10, MaxWaitMSec: 100, ValidInterval: 1},
		DirectoryCacheConfig: config.DirectoryCacheConfig{MaxLRUCacheEntry: 8, MaxCacheFds: 8, SyncAdd: c(2) == 1, Direct: c(3) == 0},
	}
	calm := c(3) == 0
	rcfg := simreg.Config{Base: simreg.Personality(c(int(simreg.NumPersonalities)))}
	if !calm {
		rcfg.LatencyDen = []int{0, 0, 4}[c(3)] // slow registry: the prefetch takes simulated seconds
		// blob requests are redirected to a CDN whose URLs expire: a connectivity check that meets an expired
		// URL fails, the refresh that follows succeeds, fetches refresh the URL by themselves
		rcfg.Redirect = c(3) != 0
		if rcfg.Redirect {
			rcfg.ExpireDen = []int{2, 4}[c(2)]
		}
	}
	root, cleanup := hx.RunDir()
	defer cleanup()
	checks, early := 0, 0
	res := simrt.Run(t, tape, simrt.Options{MaxSteps: 3000000, HangAfter: 3 * time.Hour}, func(s *simrt.Sim, mt *simrt.Task) {
		s.Procs = 1
		s.UseDisk(simrt.DiskCfg{Yield: false})
		reg := simreg.New(s, rcfg)
		dm, err := common.NewDaemon(s, filepath.Join(root, "stargz"), img, fcfg, reg, nil, s.Tape.Draw("cfg.daemon", 2) == 1)
		if err != nil {
			s.Fail("harness", "NewFilesystem: %v", err)
			return
		}
		ctx := context.Background()
		L := img[0]
		mp := filepath.Join(root, "mnt", "c", "fs")
		labels := dm.Labels(0, "ok")
		blips := 0
		stop := false
		var net *simrt.Task
		if !calm {
			// short connectivity losses: a connectivity check inside Check fails, the refresh that follows may succeed
			net = s.Go("network", func(t *simrt.Task) {
				for i := 0; i < 6 && !stop; i++ {
					t.Sleep(time.Duration(200+s.Tape.Draw(t.Label, 3000)) * time.Millisecond)
					reg.Down = true
					blips++
					t.Sleep(time.Duration(1+s.Tape.Draw(t.Label, 400)) * time.Millisecond)
					reg.Down = false
				}
			})
		}
		if err := dm.FS.Mount(ctx, mp, labels); err != nil {
			stop = true
			if calm {
				s.Fail("mount-error", "Mount failed against a calm registry: %v", err)
			}
			return
		}
		// now and then the connectivity check inside Check is answered 500 once (a registry hiccup; a 403 would be
		// handled inside the fetcher by re-redirecting): the check fails, the refresh that follows succeeds; the
		// prefetch is not disturbed
		failCheck := false
		var pfAnswered []time.Duration // simulated instants at which a request of the prefetch task was answered
		reg.PostHook = func(r *simreg.Request, req *http.Request, resp *http.Response) *http.Response {
			if failCheck && r.Task == mt.Label && r.Blob != "" && len(r.Ranges) == 1 && r.Ranges[0] == [2]int64{0, 1} {
				failCheck = false
				s.Stat("fault.check-request-500", 1)
				s.Event("the connectivity check request is answered 500")
				resp.Body.Close()
				return &http.Response{StatusCode: 500, Status: "500 Internal Server Error", Header: http.Header{}, Body: http.NoBody, Request: req, ProtoMajor: 1, ProtoMinor: 1}
			}
			if strings.Contains(r.Task, "filesystem.prefetch.go#0") && r.Blob != "" {
				if !calm {
					// the prefetch's transfers are slow (a big layer), everything else is quick
					if t := simrt.Cur(); t != nil {
						t.Sleep([]time.Duration{0, 2 * time.Second, 8 * time.Second, 20 * time.Second}[s.Tape.Draw("pfdelay", 4)])
					}
				}
				pfAnswered = append(pfAnswered, s.Now()) // a request of the prefetch is being answered now
			}
			return resp
		}
		timedOutBefore := false
		type mark struct {
			idx, blips, k int
			at            time.Duration
			el            time.Duration
		}
		var marks []mark
		dr := func(n int) int { return s.Tape.Draw("client", n) }
		for k := 0; k < 1+dr(3) && !s.Failed(); k++ {
			if dr(2) == 0 {
				mt.Sleep(time.Duration(dr(4000)) * time.Millisecond)
			}
			failCheck = !calm && (k == 0 || dr(2) == 0)
			if failCheck {
				mt.Sleep(1100 * time.Millisecond) // (a connectivity check is due only valid_interval after the last one)
			}
			t0 := s.Now()
			err := dm.FS.Check(ctx, mp, labels)
			el := s.Now() - t0
			checks++
			s.Event("check #%d -> ok=%v after %v", k, err == nil, el)
			// bounded: prefetch timeout + connectivity check + refresh (each bounded by the request timeouts)
			if limit := time.Duration(timeout)*time.Second + 100*time.Second; el > limit {
				s.Fail("wait-exceeds-timeout", "Check took %v of simulated time; prefetch timeout is %ds (+ connectivity check and refresh)", el, timeout)
				return
			}
			// a Check that returned in time claims that the prefetch has ended (or failed): from now on the
			// prefetch task must not fetch anything any more (judged from the registry's request log below)
			if err == nil && el < time.Duration(timeout)*time.Second-10*time.Millisecond && !timedOutBefore {
				marks = append(marks, mark{idx: len(reg.Log), el: el, blips: blips, k: k, at: s.Now()})
			}
			if el >= time.Duration(timeout)*time.Second-10*time.Millisecond {
				timedOutBefore = true
			}
		}
		stop = true
		if net != nil {
			mt.Join(net)
		}
		mt.Sleep(time.Duration(timeout+40) * time.Second) // whatever is still in flight issues its requests
		for _, m := range marks {
			for _, a := range pfAnswered {
				if a > m.at {
					s.Fail("wait-returns-early", "Check #%d returned nil after %v (prefetch timeout %ds, no earlier wait had timed out) although the layer's prefetch was still in flight: a registry request of its task was answered only afterwards; waiting for prefetch lasts until prefetch ends or fails, or the timeout passes", m.k, m.el, timeout)
					return
				}
			}
			for _, r := range reg.Log[m.idx:] {
				if strings.Contains(r.Task, "filesystem.prefetch.go#0") && r.Blob != "" {
					s.Fail("wait-returns-early", "Check #%d returned nil after %v (prefetch timeout %ds, no earlier wait had timed out, %d connectivity blips so far) although the layer's prefetch was still in flight: its task requested %s %s afterwards; waiting for prefetch lasts until prefetch ends or fails, or the timeout passes", m.k, m.el, timeout, m.blips, r.Method, r.Shape)
					return
				}
			}
		}
		early = len(marks)
		// calm registry: once Check has returned, the prioritized files are local
		if calm && !s.Failed() && !timedOutBefore {
			before := reg.BlobRequests()
			for _, p := range L.Built.Cfg.Prioritized {
				if _, err := dm.ReadFile(mp, p, len(L.Files[p])+1); err != nil {
					s.Fail("read-error", "reading prioritized file %q after Check against a calm registry failed: %v", p, err)
					return
				}
			}
			if n := reg.BlobRequests() - before; n > 0 {
				s.Fail("prefetch-not-local", "Check returned (prefetch complete, calm registry) yet reading the prioritized files %v caused %d registry request(s)", L.Built.Cfg.Prioritized, n)
				return
			}
		}
	})
	out.Res = res
	out.Counters["daemon.checks"] += checks
	out.Counters["daemon.checks_returned_in_time"] += early
	out.Nontrivial = checks > 0
	out.Signature = fmt.Sprintf("daemon/t%d/calm%v/lat%d/%s/%s/ps%d", timeout, calm, rcfg.LatencyDen, fcfg.HTTPCacheType, fcfg.FSCacheType, fcfg.PrefetchSize)
	out.Sample = map[string]any{"campaign": "daemon", "prefetch_timeout_s": timeout, "calm": calm, "checks": checks}
	return out
}
