// C15 — prefetch and background fetch make later reads local; waiting is bounded.
// Real: layer (Prefetch, WaitForPrefetchCompletion, BackgroundFetch), reader, remote blob, caches,
// task manager, both metadata stores. Stub: registry with request log (honest bytes; failures,
// stalls and latency during prefetch in part of the runs), kernel.
package c15

import (
	"archive/tar"
	"bytes"
	"context"
	"fmt"
	"github.com/containerd/stargz-snapshotter/estargz"
	"github.com/containerd/stargz-snapshotter/estargz/zstdchunked"
	"io"
	"path/filepath"
	"sort"
	"testing"
	"time"

	"github.com/containerd/containerd/v2/pkg/reference"
	dbmetadata "github.com/containerd/stargz-snapshotter/cmd/containerd-stargz-grpc/db"
	"github.com/containerd/stargz-snapshotter/fs/config"
	"github.com/containerd/stargz-snapshotter/fs/layer"
	"github.com/containerd/stargz-snapshotter/metadata"
	memorymetadata "github.com/containerd/stargz-snapshotter/metadata/memory"
	"github.com/containerd/stargz-snapshotter/task"
	"github.com/containerd/stargz-snapshotter/zzverif/common"
	digest "github.com/opencontainers/go-digest"
	ocispec "github.com/opencontainers/image-spec/specs-go/v1"
	bolt "go.etcd.io/bbolt"
	"verifsim/hx"
	"verifsim/simreg"
	"verifsim/simrt"
)

func run(t *testing.T, tape *simrt.Tape) *hx.Outcome {
	if tape.Draw("cfg.campaign", 4) == 0 { // own stream: older tapes replay unchanged
		return runDaemon(t, tape)
	}
	out := &hx.Outcome{Counters: map[string]int{}}
	d := func(n int) int { return tape.Draw("gen", n) }
	kind := []string{"prefetch-landmark", "prefetch-landmark", "no-prefetch-landmark", "no-landmark"}[d(4)]
	cs := []int{8, 17, 64}[d(3)]
	files := map[string][]byte{} // every regular file
	var prioritized []string
	var blob []byte
	var tocDigest digest.Digest
	switch kind {
	case "no-landmark":
		b, _, fs := common.HandBlob(d, tape.Seed)
		blob, files = b, fs
		// TOC digest: let the layer tell (verification is not the subject here)
	default:
		spec := common.GenTar(d, tape.Seed, common.GenOpts{ChunkSize: cs, MaxEntries: 12, OddNames: d(3) == 0, BigFiles: d(3) == 0})
		tb := spec.Bytes()
		model, err := common.Model(tb)
		if err != nil {
			out.InfraErr = "model: " + err.Error()
			return out
		}
		model.Walk(func(n *common.MNode) {
			if n.Type == tar.TypeReg {
				files[n.Path] = n.Data
			}
		})
		bc := common.BuildCfg{ChunkSize: cs, Compression: d(2), Workers: 1 + d(2)}
		if d(3) == 0 {
			bc.MinChunkSize = 3 * cs
		}
		if kind == "prefetch-landmark" {
			var names []string
			for p := range files {
				names = append(names, p)
			}
			sort.Strings(names)
			for _, p := range names {
				if model.ExplicitParents(p) && (len(prioritized) == 0 || d(2) == 0) {
					prioritized = append(prioritized, p)
				}
			}
			if len(prioritized) == 0 {
				kind = "no-prefetch-landmark"
			}
			bc.Prioritized = prioritized
		}
		built, err := common.BuildBlob(tb, bc)
		if err != nil {
			out.InfraErr = "build: " + err.Error()
			return out
		}
		blob, tocDigest = built.Blob, built.TOCDigest
	}
	c := func(n int) int { return tape.Draw("cfg", n) }
	useDB := c(2) == 1
	calm := c(2) == 0
	prefetchTimeout := []int64{2, 10}[c(2)]
	fcfg := config.Config{
		HTTPCacheType: []string{"memory", ""}[c(2)], FSCacheType: []string{"memory", ""}[c(2)],
		PrefetchTimeoutSec: prefetchTimeout, NoPrometheus: true,
		PrefetchAsyncSize:    []int64{0, 64, 700, 6000}[c(4)],
		BlobConfig:           config.BlobConfig{ChunkSize: []int64{16, 64, 300, 50000}[c(4)], PrefetchChunkSize: []int64{0, 100, 1000}[c(3)], FetchTimeoutSec: 30, MaxRetries: 1, MinWaitMSec: 10, MaxWaitMSec: 100, ValidInterval: 600},
		DirectoryCacheConfig: config.DirectoryCacheConfig{MaxLRUCacheEntry: 1 + c(3), MaxCacheFds: 1 + c(3), SyncAdd: c(2) == 1, Direct: c(3) == 0},
	}
	prefetchSize := int64(c(len(blob)*3/2 + 2))
	rcfg := simreg.Config{Base: simreg.Personality(c(int(simreg.NumPersonalities))), Redirect: c(3) == 0, ReadYield: c(2) == 1}
	if !calm {
		rcfg.FaultDen = []int{6, 20}[c(2)]
		rcfg.LatencyDen = []int{0, 3}[c(2)]
		rcfg.StallOK = true
		rcfg.Fickle = c(2) == 0
	}
	root, cleanup := hx.RunDir()
	defer cleanup()
	store := metadata.Store(memorymetadata.NewReader)
	if useDB {
		bdb, err := bolt.Open(filepath.Join(root, "metadata.db"), 0600, &bolt.Options{NoSync: true, InitialMmapSize: 64 << 20})
		if err != nil {
			out.InfraErr = "bolt: " + err.Error()
			return out
		}
		defer bdb.Close()
		store = func(sr *io.SectionReader, opts ...metadata.Option) (metadata.Reader, error) {
			return dbmetadata.NewReader(bdb, sr, opts...)
		}
	}
	localityChecks, offlineReads, waits := 0, 0, 0
	res := simrt.Run(t, tape, simrt.Options{MaxSteps: 600000, HangAfter: 3 * time.Hour}, func(s *simrt.Sim, mt *simrt.Task) {
		s.Procs = 1 + s.Tape.Draw("cfg", 3)
		s.UseDisk(simrt.DiskCfg{Yield: true})
		reg := simreg.New(s, rcfg)
		dg := digest.FromBytes(blob)
		reg.Blobs[dg.String()] = blob
		tm := task.NewBackgroundTaskManager(int64(1+s.Tape.Draw("cfg", 2)), time.Duration(s.Tape.Draw("cfg", 3))*time.Second)
		rs, err := layer.NewResolver(filepath.Join(root, "r"), tm, fcfg, nil, store, layer.OverlayOpaqueAll, nil)
		if err != nil {
			s.Fail("harness", "NewResolver: %v", err)
			return
		}
		refspec, _ := reference.Parse("reg.example/repo/img:latest")
		desc := ocispec.Descriptor{Digest: dg, Size: int64(len(blob)), MediaType: ocispec.MediaTypeImageLayerGzip}
		hosts := common.Hosts(reg, 20*time.Second, nil, s.Tape.Draw("cfg", 2) == 1)
		// resolving is not the subject: do it against a quiet registry
		reg.NoFaults = true
		saveLat := reg.Cfg.LatencyDen
		reg.Cfg.LatencyDen = 0
		l, err := rs.Resolve(context.Background(), hosts, refspec, desc)
		if err != nil {
			s.Fail("resolve-error", "Resolve against a quiet honest registry failed: %v", err)
			return
		}
		if tocDigest == "" {
			tocDigest = l.Info().TOCDigest
		}
		if err := l.Verify(tocDigest); err != nil {
			s.Fail("verify-error", "%v", err)
			return
		}
		rn, err := l.RootNode(0)
		if err != nil {
			s.Fail("rootnode-error", "%v", err)
			return
		}
		tree := common.NewTree(rn)
		reg.NoFaults = false
		reg.Cfg.LatencyDen = saveLat
		readAll := func(p string) (bool, string) {
			nd, _, errno := tree.Lookup(p)
			if errno != 0 {
				return false, fmt.Sprintf("lookup: %v", errno)
			}
			want := files[p]
			if len(want) == 0 {
				return true, ""
			}
			fh, errno := tree.Open(nd)
			if errno != 0 {
				return false, fmt.Sprintf("open: %v", errno)
			}
			defer tree.Release(fh)
			b, errno, _ := tree.Read(fh, 0, len(want)+1)
			if errno != 0 {
				st, _ := tree.StateJSON()
				return false, fmt.Sprintf("read: %v %s", errno, st)
			}
			if !bytes.Equal(b, want) {
				return false, "wrong bytes"
			}
			return true, ""
		}
		blobReqs := func() int { return reg.BlobRequests() }
		// ---- phase 1: Prefetch (possibly concurrent/repeated) and waiters ----
		var perr []error
		var ts []*simrt.Task
		pEnd := time.Duration(-1)
		type waitRec struct {
			who        string
			start, end time.Duration
			ok         bool
		}
		var waitRecs []waitRec
		nPref := 1 + s.Tape.Draw("cfg", 2)
		before := blobReqs()
		for k := 0; k < nPref; k++ {
			ts = append(ts, s.Go(fmt.Sprintf("prefetch%d", k), func(t *simrt.Task) {
				err := l.Prefetch(prefetchSize)
				s.Event("%s -> ok=%v", t.Label, err == nil)
				perr = append(perr, err)
				if pEnd < 0 {
					pEnd = s.Now() // the instant prefetch ended (successfully or not)
				}
			}))
		}
		for k := 0; k < 1+s.Tape.Draw("cfg", 2); k++ {
			ts = append(ts, s.Go(fmt.Sprintf("waiter%d", k), func(t *simrt.Task) {
				if s.Tape.Draw(t.Label, 2) == 0 {
					t.Sleep(time.Duration(s.Tape.Draw(t.Label, 3000)) * time.Millisecond)
				}
				t0 := s.Now()
				err := l.WaitForPrefetchCompletion()
				el := s.Now() - t0
				waits++
				waitRecs = append(waitRecs, waitRec{t.Label, t0, s.Now(), err == nil})
				s.Event("%s waited %v ok=%v", t.Label, el, err == nil)
				if el > time.Duration(prefetchTimeout)*time.Second {
					s.Fail("wait-exceeds-timeout", "WaitForPrefetchCompletion returned after %v of simulated time; the configured prefetch timeout is %ds", el, prefetchTimeout)
				}
				if s.Tape.Draw(t.Label, 2) == 0 { // repeated wait returns at once
					t1 := s.Now()
					l.WaitForPrefetchCompletion()
					if s.Now()-t1 > time.Duration(prefetchTimeout)*time.Second {
						s.Fail("wait-exceeds-timeout", "a repeated WaitForPrefetchCompletion took %v", s.Now()-t1)
					}
				}
			}))
		}
		mt.Join(ts...)
		if s.Failed() {
			return
		}
		// waiting returns when prefetch ends OR FAILS: no wait may outlast the end of prefetch (simulated
		// time does not advance while tasks are runnable, so "when" is the same instant)
		for _, w := range waitRecs {
			lim := pEnd
			if w.start > lim {
				lim = w.start
			}
			if pEnd >= 0 && w.end > lim {
				s.Fail("wait-outlasts-prefetch", "%s: WaitForPrefetchCompletion started at %v and returned at %v, but prefetch had ended at %v (prefetch errors: %v)", w.who, w.start, w.end, pEnd, perr)
				return
			}
		}
		// ... and not earlier, unless the timeout elapsed or the prefetch is larger than the configured
		// asynchronous threshold (then waiters are not held up by design)
		effective := prefetchSize
		if effective > int64(len(blob)) {
			effective = int64(len(blob))
		}
		if kind == "prefetch-landmark" {
			if er, err := estargz.Open(io.NewSectionReader(bytes.NewReader(blob), 0, int64(len(blob))), estargz.WithDecompressors(new(zstdchunked.Decompressor))); err == nil {
				if e, ok := er.Lookup(estargz.PrefetchLandmark); ok {
					effective = e.Offset
				}
			} else {
				effective = -1 // unknown: the early-return oracle is not applied
			}
		}
		async := fcfg.PrefetchAsyncSize > 0 && effective > fcfg.PrefetchAsyncSize
		// (the first waiter that times out marks the wait as over for everybody: later returns are not early)
		firstTimeout := time.Duration(-1)
		for _, w := range waitRecs {
			if !w.ok && (firstTimeout < 0 || w.end < firstTimeout) {
				firstTimeout = w.end
			}
		}
		for _, w := range waitRecs {
			if w.ok && effective >= 0 && pEnd > w.end && w.end-w.start < time.Duration(prefetchTimeout)*time.Second && !async && kind != "no-prefetch-landmark" &&
				(firstTimeout < 0 || w.end < firstTimeout) {
				s.Fail("wait-returns-early", "%s: WaitForPrefetchCompletion returned nil at %v (started %v, timeout %ds) while prefetch only ended at %v; the prefetch of %d bytes is not above the asynchronous threshold %d", w.who, w.end, w.start, prefetchTimeout, pEnd, effective, fcfg.PrefetchAsyncSize)
				return
			}
		}
		allOK := true
		for _, e := range perr {
			if e != nil {
				allOK = false
			}
		}
		if calm && !allOK {
			s.Fail("prefetch-error", "Prefetch failed against a calm honest registry: %v", perr)
			return
		}
		used := blobReqs() - before
		out.Counters["prefetch_requests"] += used
		switch {
		case kind == "no-prefetch-landmark":
			if used != 0 {
				s.Fail("prefetch-traffic-without-landmark", "a layer with a no-prefetch landmark caused %d registry blob request(s) during Prefetch(%d)", used, prefetchSize)
				return
			}
			localityChecks++
		case allOK && kind == "prefetch-landmark":
			mark := blobReqs()
			for _, p := range prioritized {
				ok, why := readAll(p)
				if !ok {
					s.Fail("prioritized-read-failed", "after a successful prefetch, reading prioritized file %q failed: %s", p, why)
					return
				}
			}
			if n := blobReqs() - mark; n != 0 {
				s.Fail("prefetch-not-local", "after Prefetch returned nil, reading the prioritized files %v completely caused %d further registry request(s): %s", prioritized, n, lastReqs(reg, mark))
				return
			}
			localityChecks++
		case allOK && kind == "no-landmark":
			want := prefetchSize
			if want > int64(len(blob)) {
				want = int64(len(blob))
			}
			mark := blobReqs()
			p := make([]byte, want)
			n, err := l.ReadAt(p, 0)
			if err != nil || int64(n) != want || !bytes.Equal(p[:n], blob[:want]) {
				s.Fail("prefetched-range-read-failed", "reading the prefetched range [0,%d) failed: n=%d err=%v", want, n, err)
				return
			}
			if k := blobReqs() - mark; k != 0 {
				s.Fail("prefetch-not-local", "without landmarks Prefetch(%d) must fetch [0,%d) of the %d-byte blob; reading that range afterwards caused %d registry request(s): %s", prefetchSize, want, len(blob), k, lastReqs(reg, mark))
				return
			}
			localityChecks++
		}
		// ---- phase 2: background fetch with prioritized work arriving ----
		var berr []error
		ts = nil
		for k := 0; k < 1+s.Tape.Draw("cfg", 2); k++ {
			ts = append(ts, s.Go(fmt.Sprintf("bgfetch%d", k), func(t *simrt.Task) {
				err := l.BackgroundFetch()
				s.Event("%s -> ok=%v", t.Label, err == nil)
				berr = append(berr, err)
			}))
		}
		var names []string
		for p := range files {
			names = append(names, p)
		}
		sort.Strings(names)
		for k := 0; k < s.Tape.Draw("cfg", 3); k++ {
			ts = append(ts, s.Go(fmt.Sprintf("reader%d", k), func(t *simrt.Task) {
				for i := 0; i < 1+s.Tape.Draw(t.Label, 4) && len(names) > 0; i++ {
					if s.Tape.Draw(t.Label, 2) == 0 {
						t.Sleep(time.Duration(1+s.Tape.Draw(t.Label, 4000)) * time.Millisecond)
					}
					ok, why := readAll(names[s.Tape.Draw(t.Label, len(names))])
					if !ok && calm {
						s.Fail("read-failed", "on-demand read during background fetch failed against a calm registry: %s", why)
					}
				}
			}))
		}
		mt.Join(ts...)
		if s.Failed() {
			return
		}
		bOK := true
		for _, e := range berr {
			if e != nil {
				bOK = false
			}
		}
		if calm && !bOK {
			s.Fail("bgfetch-error", "BackgroundFetch failed against a calm honest registry: %v", berr)
			return
		}
		if bOK {
			reg.Down = true
			for _, p := range names {
				ok, why := readAll(p)
				if !ok {
					s.Fail("not-local-after-bgfetch", "BackgroundFetch returned nil, yet reading %q with the registry unreachable failed: %s", p, why)
					return
				}
				offlineReads++
			}
		}
		l.Done()
		for k, v := range reg.Stats {
			out.Counters["reg."+k] += v
		}
	})
	out.Res = res
	out.Counters["kind."+kind]++
	out.Counters["locality_checks"] += localityChecks
	out.Counters["offline_reads"] += offlineReads
	out.Counters["waits"] += waits
	out.Nontrivial = localityChecks > 0 || offlineReads > 0
	out.Signature = fmt.Sprintf("%s/p%d/f%d/cs%d/db%v/calm%v/%s/%s/ps%d/async%d", kind, len(prioritized), len(files), cs, useDB, calm, fcfg.HTTPCacheType, fcfg.FSCacheType, prefetchSize, fcfg.PrefetchAsyncSize)
	out.Sample = map[string]any{"kind": kind, "prioritized": prioritized, "files": len(files), "blob": len(blob), "prefetch_size": prefetchSize, "prefetch_timeout_s": prefetchTimeout,
		"async_threshold": fcfg.PrefetchAsyncSize, "store_db": useDB, "calm": calm, "http_cache": fcfg.HTTPCacheType, "fs_cache": fcfg.FSCacheType, "locality_checks": localityChecks, "offline_reads": offlineReads}
	return out
}

func lastReqs(reg *simreg.Registry, mark int) string {
	var o []string
	n := 0
	for _, q := range reg.Log {
		if q.Blob != "" && q.Status != 0 {
			n++
			if n > mark && len(o) < 4 {
				o = append(o, fmt.Sprintf("%s %s range=%q by %s", q.Method, q.Host, q.Header.Get("Range"), q.Task))
			}
		}
	}
	return fmt.Sprint(o)
}

func TestC15(t *testing.T) {
	hx.Main(t, hx.Prop{
		ID:               "C15",
		Rule:             "each run draws a layer kind (built with a prioritized set -> prefetch landmark; built without -> no-prefetch landmark; hand-written blob without landmarks), build options, prefetch size 0..1.5x blob, async threshold, prefetch chunk size, registry chunk size, memory/directory caches with tiny LRUs, metadata store, prefetch timeout 2s/10s, background concurrency and silence period, and a registry that is calm in half of the runs and otherwise fails, stalls and delays requests; phase 1 runs 1-2 concurrent Prefetch calls and 1-2 waiters (WaitForPrefetchCompletion, also repeated), then checks: no-prefetch landmark => zero blob requests; prefetch returned nil everywhere => reading every prioritized file (or the first min(size, blob) bytes when there is no landmark) adds zero registry requests; every wait returns within the configured timeout of simulated time. Phase 2 runs 1-2 BackgroundFetch calls with on-demand readers arriving; if it returned nil every regular file must read fully with the registry unreachable. non-trivial = a locality or offline check was performed; distinct = schedule hash x configuration A quarter of the runs is the 'daemon' campaign through the real filesystem (fs/fs.go): one layer with a prefetch landmark is mounted (Mount starts the prefetch) and Check - where a container start waits for it - is called 1-3 times, with prefetch timeouts of 3/10/30 s, the prefetch's transfers delayed by 0-20 s, expiring CDN URLs, short outages, and the connectivity-check request inside Check answered 500 once (the check fails, the refresh succeeds): a Check that returns nil before the timeout has passed (and before any earlier wait timed out) must not be followed by an answer to a request of the prefetch task (the prefetch was still in flight), Check returns within the timeout plus 100 s, and against a calm registry the prioritized files are local afterwards (no registry request).",
		Run:              run,
		PanicIsViolation: true,
		HangIsViolation:  true,
		Components:       map[string]string{"fs/layer (Prefetch/Wait/BackgroundFetch), fs/reader, fs/remote, cache, task": "real (instrumented copy)", "metadata stores": "real", "registry": "stub with request log (simreg)", "kernel FUSE": "stub (node interfaces)"},
		Assumptions:      []string{"the legal cache-loss injection is off for the zero-request clauses (a lost entry legitimately causes a refetch); LRU pressure stays on", "'prefetch completed' = every concurrent Prefetch call returned nil (later callers of the sync.Once get nil even if the first failed)"},
	})
}
