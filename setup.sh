#!/bin/bash
# Offline setup: build the instrumenter. Harness binaries are (re)built by ./check from /repo's working tree.
set -e
cd "$(dirname "$0")"
export GOFLAGS=-mod=mod GOPROXY=off GOSUMDB=off GOTOOLCHAIN=local PATH=/opt/veriftools/go1.26.8/bin:$PATH CGO_ENABLED=0
mkdir -p bin evidence replays
(cd tools/instrument && go build -o ../../bin/instrument .)
(cd simrt && go vet -unsafeptr=false ./... )
echo setup ok
