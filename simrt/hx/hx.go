// Package hx is the per-process worker loop shared by all property harnesses:
// seeded exploration, replay, shrinking, determinism self-test and the result
// file the driver merges into the evidence.
package hx

import (
	"encoding/json"
	"fmt"
	"os"
	"os/exec"
	"sort"
	"strconv"
	"strings"
	"testing"
	"time"

	"verifsim/simrt"
)

// Outcome of one simulated run as judged by the property harness.
type Outcome struct {
	Res        *simrt.Result
	Violations []simrt.Violation // Res.Violations plus post-run oracle findings
	Nontrivial bool              // by the property's stated rule
	Signature  string            // what makes the run "distinct" beyond the schedule hash ("" = schedule hash only)
	Sample     any               // compact description of the case (kept for a few runs)
	Counters   map[string]int    // faults fired, probes hit, operations by kind
	Real       bool              // outcome is valid (false = harness could not set up; counted as infra error)
	InfraErr   string
}

// Prop describes a property harness.
type Prop struct {
	ID   string
	Rule string // how cases are generated and what makes one non-trivial / distinct
	// Run executes one simulated run driven entirely by the tape.
	Run func(t *testing.T, tape *simrt.Tape) *Outcome
	// PanicIsViolation: a recovered panic inside repository code counts as a
	// violation of this property (C04); otherwise it is an infrastructure error.
	PanicIsViolation bool
	// HangIsViolation: "hang"/"budget" verdicts count as violations (bounded liveness).
	HangIsViolation bool
	// CrashIsViolation: the exploration runs in a supervised child process; a child that dies
	// (fatal runtime error, stack overflow, out of memory under ulimit -v, real-time dead loop)
	// is a violation of this property, reported with the run seed taken from the journal (C04).
	CrashIsViolation bool
	Components       map[string]string // component -> "real" | "stub: ..."
	Assumptions      []string
}

// Known finding entry (committed file /verif/KNOWN_FINDINGS.json).
type Known struct {
	Property  string `json:"property"`
	Status    string `json:"status"` // "known" | "fixed"
	Signature string `json:"signature"`
	What      string `json:"what"`
	Commit    string `json:"commit,omitempty"`
}

// Replay file.
type Replay struct {
	Property  string              `json:"property"`
	Seed      uint64              `json:"seed"`
	RunIndex  int                 `json:"run_index"`
	RunSeed   uint64              `json:"run_seed"`
	Oracle    string              `json:"oracle"`
	Msg       string              `json:"msg"`
	LogHash   string              `json:"log_hash"`
	Minimised bool                `json:"minimised"`
	Tape      map[string][]uint64 `json:"tape"`
	Draws     int                 `json:"draws"`
	LogTail   []string            `json:"log_tail"`
	Sample    any                 `json:"sample,omitempty"`
	ShrinkRun int                 `json:"shrink_runs"`
}

// WorkerResult is what one worker process reports to the driver.
type WorkerResult struct {
	Property    string            `json:"property"`
	Worker      int               `json:"worker"`
	Seed        uint64            `json:"seed"`
	Runs        int               `json:"runs"`
	Steps       int               `json:"steps"`
	SimNs       int64             `json:"sim_ns"`
	WallS       float64           `json:"wall_s"`
	Counters    map[string]int    `json:"counters"`
	Verdicts    map[string]int    `json:"verdicts"`
	Nontrivial  []string          `json:"nontrivial"` // distinct signatures of non-trivial runs
	DistinctAll int               `json:"distinct_all"`
	Samples     []any             `json:"samples"`
	Violation   *Replay           `json:"violation,omitempty"`
	ReplayPath  string            `json:"replay_path,omitempty"`
	KnownHits   map[string]int    `json:"known_hits"`
	InfraErrors []string          `json:"infra_errors"`
	Rule        string            `json:"rule"`
	Components  map[string]string `json:"components"`
	Assumptions []string          `json:"assumptions"`
	SelfTest    *SelfTest         `json:"selftest,omitempty"`
	FirstSeeds  []uint64          `json:"first_seeds"`
}

type SelfTest struct {
	Seeds     int `json:"seeds"`
	Divergent int `json:"divergent"`
	// StepsOnly counts seeds whose two runs produced the same event log, verdict and violations but a
	// different number of scheduling steps (an unlogged scheduling difference; reported, not fatal)
	StepsOnly int      `json:"steps_only"`
	Details   []string `json:"details"`
	Hashes    []string `json:"hashes"`
}

func envInt(name string, def int) int {
	if v := os.Getenv(name); v != "" {
		if n, err := strconv.Atoi(v); err == nil {
			return n
		}
	}
	return def
}

func envU64(name string, def uint64) uint64 {
	if v := os.Getenv(name); v != "" {
		if n, err := strconv.ParseUint(v, 10, 64); err == nil {
			return n
		}
		if n, err := strconv.ParseInt(v, 10, 64); err == nil {
			return uint64(n)
		}
	}
	return def
}

func loadKnown(id string) []Known {
	p := os.Getenv("VERIF_KNOWN")
	if p == "" {
		return nil
	}
	b, err := os.ReadFile(p)
	if err != nil {
		return nil
	}
	var all []Known
	if json.Unmarshal(b, &all) != nil {
		return nil
	}
	var out []Known
	for _, k := range all {
		if k.Property == id && k.Status == "known" {
			out = append(out, k)
		}
	}
	return out
}

// classify turns the verdict of a run into violations according to the property.
func (p *Prop) finish(o *Outcome) {
	if o.Res == nil {
		return
	}
	if len(o.Violations) == 0 {
		o.Violations = append(o.Violations, o.Res.Violations...)
	}
	switch o.Res.Verdict {
	case "panic":
		if p.PanicIsViolation {
			o.Violations = append(o.Violations, simrt.Violation{Oracle: "no-panic", Msg: firstLines(o.Res.PanicInfo, 12)})
		} else if len(o.Violations) == 0 {
			o.InfraErr = "panic in simulated code: " + firstLines(o.Res.PanicInfo, 30)
		}
	case "hang", "budget":
		if p.HangIsViolation {
			tail := ""
			if n := len(o.Res.LogTail); n > 0 {
				tail = o.Res.LogTail[n-1]
			}
			o.Violations = append(o.Violations, simrt.Violation{Oracle: "bounded-liveness", Msg: o.Res.Verdict + ": " + tail})
		} else if len(o.Violations) == 0 {
			o.InfraErr = "run ended with verdict " + o.Res.Verdict + ": " + strings.Join(o.Res.LogTail, " | ")
		}
	}
	if o.Res.BubblePanic != "" && len(o.Violations) == 0 && o.InfraErr == "" && !strings.Contains(o.Res.BubblePanic, "deadlock") {
		o.InfraErr = "bubble panic: " + o.Res.BubblePanic
	}
}

func hashS(s string) uint64 {
	var h uint64 = 1469598103934665603
	for i := 0; i < len(s); i++ {
		h ^= uint64(s[i])
		h *= 1099511628211
	}
	return h
}

func firstLines(s string, n int) string {
	ls := strings.Split(s, "\n")
	if len(ls) > n {
		ls = ls[:n]
	}
	return strings.Join(ls, "\n")
}

func sigOf(v simrt.Violation) string { return v.Oracle }

// Main is called from the single Test function of a harness binary.
func Main(t *testing.T, p Prop) {
	mode := os.Getenv("VERIF_MODE")
	if mode == "" {
		mode = "explore"
	}
	out := os.Getenv("VERIF_OUT")
	seed := envU64("VERIF_SEED", 1)
	worker := envInt("VERIF_WORKER", 0)
	nworkers := envInt("VERIF_WORKERS", 1)
	wr := &WorkerResult{Property: p.ID, Worker: worker, Seed: seed, Counters: map[string]int{}, Verdicts: map[string]int{},
		KnownHits: map[string]int{}, Rule: p.Rule, Components: p.Components, Assumptions: p.Assumptions}
	start := time.Now()
	defer func() {
		wr.WallS = time.Since(start).Seconds()
		if out != "" {
			b, _ := json.Marshal(wr)
			os.WriteFile(out, b, 0644)
		} else {
			b, _ := json.MarshalIndent(wr, "", " ")
			if len(b) > 6000 {
				b = b[:6000]
			}
			fmt.Println(string(b))
		}
	}()
	runOne := func(tape *simrt.Tape) *Outcome {
		simrt.ResetIdent()
		o := p.Run(t, tape)
		p.finish(o)
		return o
	}
	switch mode {
	case "replay":
		rp := loadReplay(os.Getenv("VERIF_REPLAY"))
		if rp == nil {
			wr.InfraErrors = append(wr.InfraErrors, "cannot load replay file")
			return
		}
		var rt *simrt.Tape
		if rp.Tape == nil {
			rt = simrt.NewTape(rp.RunSeed) // crash replays carry only the run seed
		} else {
			rt = simrt.NewReplayTape(rp.RunSeed, rp.Tape)
		}
		o := runOne(rt)
		got := ""
		msg := ""
		for _, v := range o.Violations {
			if v.Oracle == rp.Oracle {
				got = v.Oracle
				msg = v.Msg
			}
		}
		if got == "" && len(o.Violations) > 0 {
			got, msg = o.Violations[0].Oracle, o.Violations[0].Msg
		}
		fmt.Printf("REPLAY property=%s oracle=%q expected=%q log_hash=%s expected_hash=%s\n", p.ID, got, rp.Oracle, o.Res.LogHash, rp.LogHash)
		fmt.Printf("REPLAY msg: %s\n", msg)
		for _, l := range o.Res.LogTail {
			fmt.Println("  ", l)
		}
		if got == rp.Oracle && o.Res.LogHash == rp.LogHash {
			fmt.Println("REPLAY-REPRODUCED")
			rp2 := *rp
			wr.Violation = &rp2
		} else if got == rp.Oracle {
			fmt.Println("REPLAY-REPRODUCED-ORACLE-ONLY")
			rp2 := *rp
			wr.Violation = &rp2
			wr.InfraErrors = append(wr.InfraErrors, "replay reproduced the oracle but the log hash differs")
		} else {
			fmt.Println("REPLAY-NOT-REPRODUCED")
		}
		return
	case "replayseed":
		// run exactly one generated run (used by the supervisor to attribute a crash)
		rs := envU64("VERIF_REPLAY_SEED", 0)
		o := runOne(simrt.NewTape(rs))
		if o.Res != nil {
			fmt.Printf("REPLAYSEED seed=%d steps=%d draws=%d log=%s sched=%s verdict=%q\n", rs, o.Res.Steps, o.Res.Draws, o.Res.LogHash, o.Res.SchedHash, o.Res.Verdict)
		}
		if len(o.Violations) > 0 {
			v := o.Violations[0]
			wr.Violation = &Replay{Property: p.ID, RunSeed: rs, Oracle: v.Oracle, Msg: v.Msg, LogHash: o.Res.LogHash, LogTail: o.Res.LogTail, Sample: o.Sample}
		}
		wr.Runs = 1
		return
	case "selftest":
		n := envInt("VERIF_RUNS", 30)
		st := &SelfTest{}
		for i := 0; i < n; i++ {
			rs := simrt.Mix(seed, uint64(i*nworkers+worker))
			a := runOne(simrt.NewTape(rs))
			b := runOne(simrt.NewTape(rs))
			st.Seeds++
			st.Hashes = append(st.Hashes, fmt.Sprintf("%d:%s:%d", rs, a.Res.LogHash, len(a.Violations)))
			if a.Res.LogHash != b.Res.LogHash || a.Res.Verdict != b.Res.Verdict || len(a.Violations) != len(b.Violations) {
				st.Divergent++
				if len(st.Details) < 5 {
					st.Details = append(st.Details, fmt.Sprintf("run seed %d: %s/%d vs %s/%d", rs, a.Res.LogHash, a.Res.Steps, b.Res.LogHash, b.Res.Steps))
				}
			} else if a.Res.Steps != b.Res.Steps {
				st.StepsOnly++
				if len(st.Details) < 5 {
					st.Details = append(st.Details, fmt.Sprintf("run seed %d: same log %s, steps %d vs %d", rs, a.Res.LogHash, a.Res.Steps, b.Res.Steps))
				}
			}
		}
		wr.SelfTest = st
		wr.Runs = 2 * n
		return
	}
	// explore
	if p.CrashIsViolation && os.Getenv("VERIF_CHILD") == "" {
		supervise(p, wr, start)
		return
	}
	known := loadKnown(p.ID)
	journal := os.Getenv("VERIF_JOURNAL")
	startIdx := envInt("VERIF_START", 0)
	runLimit := time.Duration(envInt("VERIF_RUN_TIMEOUT_S", 0)) * time.Second
	var wd *time.Timer
	if runLimit > 0 {
		wd = time.AfterFunc(runLimit, func() {})
		wd.Stop()
	}
	budget := time.Duration(envInt("VERIF_BUDGET_S", 20)) * time.Second
	maxRuns := envInt("VERIF_RUNS", 1<<30)
	distinct := map[string]bool{}
	nontriv := map[string]bool{}
	for i := startIdx; i < maxRuns && time.Since(start) < budget; i++ {
		idx := i*nworkers + worker
		rs := simrt.Mix(seed, uint64(idx))
		if journal != "" {
			os.WriteFile(journal, []byte(fmt.Sprintf("%d %d %d\n", i, idx, rs)), 0644)
		}
		if wd != nil {
			wd.Stop()
			wd = time.AfterFunc(runLimit, func() {
				fmt.Fprintf(os.Stderr, "\nWATCHDOG: run %d did not finish within %v of real time (dead loop or real blocking)\n", idx, runLimit)
				os.Exit(3)
			})
		}
		if len(wr.FirstSeeds) < 3 {
			wr.FirstSeeds = append(wr.FirstSeeds, rs)
		}
		tape := simrt.NewTape(rs)
		o := runOne(tape)
		if wd != nil {
			wd.Stop()
		}
		wr.Runs++
		if o.Res != nil {
			wr.Steps += o.Res.Steps
			wr.SimNs += o.Res.SimNs
			wr.Verdicts[o.Res.Verdict]++
			for k, v := range o.Res.Stats {
				wr.Counters["sim."+k] += v
			}
		}
		for k, v := range o.Counters {
			wr.Counters[k] += v
		}
		if o.InfraErr != "" {
			if len(wr.InfraErrors) < 5 {
				wr.InfraErrors = append(wr.InfraErrors, fmt.Sprintf("run %d (seed %d): %s", idx, rs, o.InfraErr))
			}
			wr.Counters["infra_errors"]++
			if wr.Counters["infra_errors"] > 3 {
				return
			}
			continue
		}
		sig := o.Signature
		if o.Res != nil {
			sig = o.Res.SchedHash + "/" + sig
		}
		sig = fmt.Sprintf("%016x", simrt.Mix(hashS(sig), 7))
		if len(distinct) < 400000 {
			distinct[sig] = true
		}
		if o.Nontrivial && len(nontriv) < 200000 {
			nontriv[sig] = true
		}
		if len(wr.Samples) < 2 && o.Sample != nil && (o.Nontrivial || i > 20) {
			wr.Samples = append(wr.Samples, o.Sample)
		}
		if len(o.Violations) > 0 {
			v := o.Violations[0]
			matchKnown := func(v simrt.Violation, count bool) bool {
				hit := false
				for _, k := range known {
					if k.Signature == v.Oracle || (strings.HasPrefix(k.Signature, v.Oracle+":") && strings.Contains(v.Msg, strings.TrimPrefix(k.Signature, v.Oracle+":"))) {
						if count {
							wr.KnownHits[k.Signature]++
						}
						hit = true
					}
				}
				return hit
			}
			if matchKnown(v, true) {
				continue
			}
			rp := &Replay{Property: p.ID, Seed: seed, RunIndex: idx, RunSeed: rs, Oracle: v.Oracle, Msg: v.Msg,
				LogHash: o.Res.LogHash, Tape: tape.Record(), Draws: tape.Draws, LogTail: o.Res.LogTail, Sample: o.Sample}
			if os.Getenv("VERIF_NOSHRINK") == "" {
				shrink(p, runOne, rp, time.Duration(envInt("VERIF_SHRINK_S", 40))*time.Second, func(v simrt.Violation) bool { return matchKnown(v, false) })
			}
			wr.Violation = rp
			if dir := os.Getenv("VERIF_REPLAY_DIR"); dir != "" {
				path := fmt.Sprintf("%s/%s-%d-%d.json", dir, p.ID, seed, idx)
				b, _ := json.MarshalIndent(rp, "", " ")
				if os.WriteFile(path, b, 0644) == nil {
					wr.ReplayPath = path
				}
			}
			break
		}
	}
	wr.DistinctAll = len(distinct)
	for k := range nontriv {
		wr.Nontrivial = append(wr.Nontrivial, k)
	}
	sort.Strings(wr.Nontrivial)
}

func loadReplay(path string) *Replay {
	b, err := os.ReadFile(path)
	if err != nil {
		return nil
	}
	var rp Replay
	if json.Unmarshal(b, &rp) != nil {
		return nil
	}
	return &rp
}

func cloneTape(m map[string][]uint64) map[string][]uint64 {
	o := make(map[string][]uint64, len(m))
	for k, v := range m {
		o[k] = append([]uint64(nil), v...)
	}
	return o
}

func trim(m map[string][]uint64) {
	for k, v := range m {
		n := len(v)
		for n > 0 && v[n-1] == 0 {
			n--
		}
		if n == 0 {
			delete(m, k)
		} else {
			m[k] = v[:n]
		}
	}
}

// shrink minimises the tape while the same oracle keeps failing: zero whole
// streams, then halves, then ever smaller chunks, then lower single values.
// "0" is everywhere the simplest choice (first task, no fault, stop generating).
func shrink(p Prop, runOne func(*simrt.Tape) *Outcome, rp *Replay, budget time.Duration, isKnown func(simrt.Violation) bool) {
	deadline := time.Now().Add(budget)
	cur := cloneTape(rp.Tape)
	trim(cur)
	runs := 0
	try := func(cand map[string][]uint64) bool {
		if time.Now().After(deadline) || runs > 3000 {
			return false
		}
		runs++
		tp := simrt.NewReplayTape(rp.RunSeed, cand)
		o := runOne(tp)
		for _, v := range o.Violations {
			if v.Oracle == rp.Oracle && !isKnown(v) {
				// (never drift from an unlisted violation into a listed known finding)
				// adopt what was actually drawn (drops unused values)
				rec := tp.Record()
				trim(rec)
				cur = rec
				rp.Msg = v.Msg
				rp.LogHash = o.Res.LogHash
				rp.LogTail = o.Res.LogTail
				rp.Draws = tp.Draws
				rp.Sample = o.Sample
				return true
			}
		}
		return false
	}
	// first make sure the recorded tape reproduces at all
	if !try(cloneTape(cur)) {
		rp.ShrinkRun = runs
		return
	}
	streams := func() []string {
		var ks []string
		for k := range cur {
			ks = append(ks, k)
		}
		sort.Strings(ks)
		return ks
	}
	progress := true
	for progress && time.Now().Before(deadline) {
		progress = false
		for _, k := range streams() {
			if _, ok := cur[k]; !ok {
				continue
			}
			c := cloneTape(cur)
			delete(c, k)
			if try(c) {
				progress = true
			}
		}
		for _, k := range streams() {
			v, ok := cur[k]
			if !ok {
				continue
			}
			for size := len(v); size >= 1; size /= 2 {
				for off := 0; off < len(cur[k]); off += size {
					v = cur[k]
					if off >= len(v) {
						break
					}
					end := off + size
					if end > len(v) {
						end = len(v)
					}
					allZero := true
					for _, x := range v[off:end] {
						if x != 0 {
							allZero = false
						}
					}
					if allZero {
						continue
					}
					c := cloneTape(cur)
					for i := off; i < end; i++ {
						c[k][i] = 0
					}
					if try(c) {
						progress = true
					} else if size == 1 && v[off] > 1 {
						c := cloneTape(cur)
						c[k][off] = v[off] / 2
						if try(c) {
							progress = true
						}
					}
					if time.Now().After(deadline) {
						break
					}
				}
				if size == 1 {
					break
				}
			}
		}
	}
	rp.Tape = cur
	rp.Minimised = true
	rp.ShrinkRun = runs
}

var runDirN int

// RunDir creates a fresh root directory for one run (on tmpfs: the driver sets
// TMPDIR under /dev/shm) and returns it with its cleanup function. Paths below
// it must never be logged (temp names are not seeded).
func RunDir() (string, func()) {
	base := os.Getenv("TMPDIR")
	if base == "" {
		base = "/dev/shm"
	}
	runDirN++
	d := fmt.Sprintf("%s/dsim-%d-%d", base, os.Getpid(), runDirN)
	os.RemoveAll(d)
	if err := os.MkdirAll(d, 0700); err != nil {
		panic(err)
	}
	return d, func() { os.RemoveAll(d) }
}

// supervise runs the exploration in child processes so that a fatal crash of
// repository code (unrecoverable in Go) is observed, attributed to a run seed
// through the journal, and does not end the exploration when it is a listed
// known finding.
func supervise(p Prop, wr *WorkerResult, start time.Time) {
	budget := time.Duration(envInt("VERIF_BUDGET_S", 20)) * time.Second
	known := loadKnown(p.ID)
	dir := os.Getenv("TMPDIR")
	if dir == "" {
		dir = "/dev/shm"
	}
	tag := fmt.Sprintf("%s/sup-%d-%d", dir, os.Getpid(), wr.Worker)
	journal, childOut, childErr := tag+".journal", tag+".out", tag+".err"
	defer func() { os.Remove(journal); os.Remove(childOut); os.Remove(childErr) }()
	next := envInt("VERIF_START", 0) // (the driver recycles worker processes and continues the numbering)
	nontriv := map[string]bool{}
	for time.Since(start) < budget {
		os.Remove(childOut)
		os.Remove(journal)
		ef, _ := os.Create(childErr)
		left := int((budget - time.Since(start)).Seconds())
		if left < 1 {
			left = 1
		}
		cmd := exec.Command(os.Args[0], os.Args[1:]...)
		cmd.Env = append(os.Environ(), "VERIF_CHILD=1", "VERIF_OUT="+childOut, "VERIF_JOURNAL="+journal,
			fmt.Sprintf("VERIF_START=%d", next), fmt.Sprintf("VERIF_BUDGET_S=%d", left))
		cmd.Stdout, cmd.Stderr = ef, ef
		err := cmd.Run()
		ef.Close()
		var cr WorkerResult
		if b, rerr := os.ReadFile(childOut); rerr == nil && json.Unmarshal(b, &cr) == nil {
			wr.Runs += cr.Runs
			wr.Steps += cr.Steps
			wr.SimNs += cr.SimNs
			wr.DistinctAll += cr.DistinctAll
			for k, v := range cr.Counters {
				wr.Counters[k] += v
			}
			for k, v := range cr.Verdicts {
				wr.Verdicts[k] += v
			}
			for k, v := range cr.KnownHits {
				wr.KnownHits[k] += v
			}
			for _, x := range cr.Nontrivial {
				nontriv[x] = true
			}
			if len(wr.Samples) < 2 {
				wr.Samples = append(wr.Samples, cr.Samples...)
			}
			if len(wr.FirstSeeds) == 0 {
				wr.FirstSeeds = cr.FirstSeeds
			}
			wr.InfraErrors = append(wr.InfraErrors, cr.InfraErrors...)
			if cr.Violation != nil {
				wr.Violation, wr.ReplayPath = cr.Violation, cr.ReplayPath
				break
			}
			if err == nil {
				break // child used up the budget
			}
		}
		if err == nil {
			break
		}
		// the child died: which run?
		var i, idx int
		var rs uint64
		jb, _ := os.ReadFile(journal)
		if n, _ := fmt.Sscanf(string(jb), "%d %d %d", &i, &idx, &rs); n != 3 {
			wr.InfraErrors = append(wr.InfraErrors, "child died before journaling a run: "+err.Error())
			break
		}
		eb, _ := os.ReadFile(childErr)
		msg, oracle := crashMessage(string(eb), err)
		wr.Runs++
		wr.Counters["child_crashes"]++
		// A goroutine left over from the previous run may have caused the crash: attribute it to
		// the most recent run that dies again when executed alone.
		for back := 0; back <= 2 && i-back >= 0; back++ {
			cidx := (i-back)*envInt("VERIF_WORKERS", 1) + wr.Worker
			crs := simrt.Mix(wr.Seed, uint64(cidx))
			c2 := exec.Command(os.Args[0], os.Args[1:]...)
			c2.Env = append(os.Environ(), "VERIF_CHILD=1", "VERIF_MODE=replayseed", fmt.Sprintf("VERIF_REPLAY_SEED=%d", crs), "VERIF_OUT="+childOut+".a")
			ob, cerr := c2.CombinedOutput()
			os.Remove(childOut + ".a")
			if cerr != nil {
				idx, rs = cidx, crs
				msg, oracle = crashMessage(string(ob), cerr)
				eb = ob
				break
			}
		}
		isKnown := false
		for _, k := range known {
			if k.Signature == oracle || (strings.HasPrefix(k.Signature, oracle+":") && strings.Contains(msg, strings.TrimPrefix(k.Signature, oracle+":"))) {
				wr.KnownHits[k.Signature]++
				isKnown = true
			}
		}
		if isKnown {
			next = i + 1
			continue
		}
		rp := &Replay{Property: p.ID, Seed: wr.Seed, RunIndex: idx, RunSeed: rs, Oracle: oracle, Msg: msg, LogTail: lastLines(string(eb), 40)}
		wr.Violation = rp
		if rdir := os.Getenv("VERIF_REPLAY_DIR"); rdir != "" {
			path := fmt.Sprintf("%s/%s-%d-%d.json", rdir, p.ID, wr.Seed, idx)
			b, _ := json.MarshalIndent(rp, "", " ")
			if os.WriteFile(path, b, 0644) == nil {
				wr.ReplayPath = path
			}
		}
		break
	}
	for k := range nontriv {
		wr.Nontrivial = append(wr.Nontrivial, k)
	}
	sort.Strings(wr.Nontrivial)
}

// crashMessage extracts the reason a child died from its stderr.
func crashMessage(stderr string, err error) (msg, oracle string) {
	oracle = "no-crash"
	for _, l := range strings.Split(stderr, "\n") {
		switch {
		case strings.HasPrefix(l, "WATCHDOG:"):
			return l, "no-dead-loop"
		case strings.HasPrefix(l, "fatal error:"), strings.HasPrefix(l, "panic:"), strings.HasPrefix(l, "runtime: goroutine stack exceeds"):
			// add the first repository frame for a usable signature
			return l + " " + firstRepoFrame(stderr), oracle
		}
	}
	return "child process ended: " + err.Error(), oracle
}

func firstRepoFrame(stderr string) string {
	for _, l := range strings.Split(stderr, "\n") {
		if strings.HasPrefix(l, "github.com/containerd/stargz-snapshotter") && !strings.Contains(l, "zzverif") {
			if i := strings.LastIndex(l, "("); i > 0 {
				return "at " + l[:i]
			}
			return "at " + l
		}
	}
	return ""
}

func lastLines(s string, n int) []string {
	ls := strings.Split(strings.TrimRight(s, "\n"), "\n")
	var out []string
	for _, l := range ls {
		if len(l) > 300 {
			l = l[:300]
		}
		out = append(out, l)
	}
	if len(out) > n {
		// keep the head (the fatal message) and some of the first frames
		out = out[:n]
	}
	return out
}
