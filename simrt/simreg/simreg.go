// Package simreg is the simulated OCI registry (+ CDN host it may redirect to).
// It is an http.RoundTripper executed in the calling task: every request is a
// scheduling point, may take simulated time, and is answered in one of the many
// legal shapes real registries use, or fails, as drawn from the tape.
package simreg

import (
	"bytes"
	"context"
	"errors"
	"fmt"
	"io"
	"mime/multipart"
	"net/http"
	"net/textproto"
	"sort"
	"strconv"
	"strings"
	"time"

	"verifsim/simrt"
)

type Personality int

const (
	Multipart  Personality = iota // honour every range; several ranges -> multipart/byteranges
	SingleOnly                    // 400 on a multi-range request (forces single-range mode)
	Super                         // answer with one 206 covering min..max of the request
	Whole                         // ignore Range, 200 with the whole body
	Coalesce                      // merge some neighbouring ranges (including the gap), multipart
	NumPersonalities
)

func (p Personality) String() string {
	return [...]string{"multipart", "single-only", "super-range", "whole-body", "coalesce"}[p]
}

type Config struct {
	Host, CDNHost string
	AltHosts      []string // further hostnames served like Host (mirrors)
	Base          Personality
	Fickle        bool // personality drawn per request
	Redirect      bool // blob requests at the registry host are redirected to the CDN host
	CDNSecondHop  bool // the CDN redirects once more to a location on its own host (e.g. a canonical or signed URL)
	ExpireDen     int  // a CDN URL that was used before is answered 403 with probability 1/ExpireDen
	HeadRefused   bool // HEAD is answered 405
	FaultDen      int  // transient failure (conn error, 5xx, truncated / failing body, omitted part, stall) with probability 1/FaultDen
	LatencyDen    int  // a request takes simulated time with probability 1/LatencyDen
	ReadYield     bool // body reads are scheduling points and come in short pieces
	StallOK       bool // faults may include "stall until the request context is cancelled"
}

type Request struct {
	Seq    uint64
	Task   string
	Host   string
	Method string
	Path   string
	Query  string
	Header http.Header
	Ranges [][2]int64
	Status int
	Shape  string
	Fault  string
	// FaultSeq is the event sequence number at which the fault took effect (a request may have
	// arrived, Seq, long before: latency)
	FaultSeq uint64
	Blob     string
	AtNs     int64
}

type Registry struct {
	S     *simrt.Sim
	Cfg   Config
	Blobs map[string][]byte // digest string -> bytes
	// Mutate, if set, returns the bytes actually served for a blob (Byzantine registry).
	Mutate func(digest string, orig []byte) []byte
	// Hook is called for every request before it is answered (taint oracles).
	Hook func(r *Request, req *http.Request)
	// Extra handles non-blob paths (manifests, token endpoints); return nil to fall through to 404.
	Extra func(r *Request, req *http.Request) *http.Response
	// PostHook may replace or mutate a response before it is returned (hostile transport, C04).
	PostHook func(r *Request, req *http.Request, resp *http.Response) *http.Response

	Log      []*Request
	Down     bool // unreachable: every request fails with a connection error
	NoFaults bool // switch transient faults off (quiet period)
	tokens   map[string]*token
	nextTok  int
	Stats    map[string]int
}

type token struct {
	digest string
	uses   int
	dead   bool
}

func New(s *simrt.Sim, cfg Config) *Registry {
	if cfg.Host == "" {
		cfg.Host = "reg.example"
	}
	if cfg.CDNHost == "" {
		cfg.CDNHost = "cdn.example"
	}
	return &Registry{S: s, Cfg: cfg, Blobs: map[string][]byte{}, tokens: map[string]*token{}, Stats: map[string]int{}}
}

func (r *Registry) draw(t *simrt.Task, n int) int {
	return r.S.Tape.Draw("reg:"+t.Label, n)
}

// BlobRequests counts the requests that asked for blob bytes (any host).
func (r *Registry) BlobRequests() int {
	n := 0
	for _, q := range r.Log {
		if q.Blob != "" && q.Status != 0 {
			n++
		}
	}
	return n
}

var errConn = errors.New("simreg: connection refused")

func (r *Registry) RoundTrip(req *http.Request) (*http.Response, error) {
	t := simrt.Cur()
	if t == nil || t.IsDead() {
		return nil, errConn
	}
	t.Yield("http")
	rec := &Request{Task: t.Label, Host: req.URL.Host, Method: req.Method, Path: req.URL.Path, Query: req.URL.RawQuery, Header: req.Header.Clone()}
	rec.Seq = r.S.Event("http %s %s%s range=%q", req.Method, req.URL.Host, req.URL.Path, req.Header.Get("Range"))
	rec.AtNs = int64(r.S.Now())
	r.Log = append(r.Log, rec)
	if r.Hook != nil {
		r.Hook(rec, req)
	}
	if err := req.Context().Err(); err != nil {
		rec.Fault = "ctx"
		return nil, err
	}
	if r.Down {
		rec.Fault = "down"
		r.Stats["down"]++
		return nil, errConn
	}
	if r.Cfg.LatencyDen > 0 && r.draw(t, r.Cfg.LatencyDen) == 0 {
		d := []time.Duration{time.Millisecond, 20 * time.Millisecond, time.Second, 7 * time.Second}[r.draw(t, 4)]
		if err := sleepCtx(req.Context(), t, d); err != nil {
			rec.Fault = "ctx"
			return nil, err
		}
		r.Stats["latency"]++
	}
	fault := ""
	if r.Cfg.FaultDen > 0 && !r.NoFaults && r.draw(t, r.Cfg.FaultDen) == 0 {
		kinds := []string{"conn", "5xx", "truncate", "readerr", "omit"}
		if r.Cfg.StallOK {
			kinds = append(kinds, "stall")
		}
		fault = kinds[r.draw(t, len(kinds))]
		rec.Fault = fault
		r.Stats["fault."+fault]++
		rec.FaultSeq = r.S.Event("regfault %s", fault)
	}
	switch fault {
	case "conn":
		return nil, errConn
	case "5xx":
		rec.Status = 503
		return r.plain(req, 503, nil, nil), nil
	case "stall":
		<-req.Context().Done()
		t.Yield("http.stall")
		return nil, req.Context().Err()
	}
	resp := r.serve(t, rec, req, fault)
	if r.PostHook != nil {
		resp = r.PostHook(rec, req, resp)
	}
	rec.Status = resp.StatusCode
	return resp, nil
}

func sleepCtx(ctx context.Context, t *simrt.Task, d time.Duration) error {
	tm := time.NewTimer(d)
	defer tm.Stop()
	select {
	case <-ctx.Done():
	case <-tm.C:
	}
	t.Yield("http.latency")
	return ctx.Err()
}

func (r *Registry) plain(req *http.Request, code int, hdr http.Header, body []byte) *http.Response {
	if hdr == nil {
		hdr = http.Header{}
	}
	return &http.Response{StatusCode: code, Status: fmt.Sprintf("%d %s", code, http.StatusText(code)), Header: hdr,
		Body: io.NopCloser(bytes.NewReader(body)), ContentLength: int64(len(body)), Request: req, Proto: "HTTP/1.1", ProtoMajor: 1, ProtoMinor: 1}
}

func parseRanges(h string, size int64) ([][2]int64, bool) {
	if !strings.HasPrefix(h, "bytes=") {
		return nil, false
	}
	var out [][2]int64
	for _, part := range strings.Split(strings.TrimPrefix(h, "bytes="), ",") {
		part = strings.TrimSpace(part)
		be := strings.SplitN(part, "-", 2)
		if len(be) != 2 || be[0] == "" {
			return nil, false
		}
		b, err1 := strconv.ParseInt(be[0], 10, 64)
		e := size - 1
		var err2 error
		if be[1] != "" {
			e, err2 = strconv.ParseInt(be[1], 10, 64)
		}
		if err1 != nil || err2 != nil || b > e {
			return nil, false
		}
		if b >= size {
			continue // unsatisfiable
		}
		if e >= size {
			e = size - 1
		}
		out = append(out, [2]int64{b, e})
	}
	return out, true
}

func (r *Registry) isAlt(h string) bool {
	for _, a := range r.Cfg.AltHosts {
		if a == h {
			return true
		}
	}
	return false
}

func (r *Registry) blobFor(rec *Request, req *http.Request) (digest string, data []byte, status int) {
	host, p := req.URL.Host, req.URL.Path
	for _, a := range r.Cfg.AltHosts {
		if host == a {
			host = r.Cfg.Host
		}
	}
	switch host {
	case r.Cfg.Host:
		i := strings.Index(p, "/blobs/")
		if !strings.HasPrefix(p, "/v2/") || i < 0 {
			return "", nil, 404
		}
		digest = p[i+len("/blobs/"):]
	case r.Cfg.CDNHost:
		if !strings.HasPrefix(p, "/blob/") {
			return "", nil, 404
		}
		digest = strings.TrimPrefix(p, "/blob/")
		tk := r.tokens[req.URL.Query().Get("token")]
		if tk == nil || tk.dead || tk.digest != digest {
			return digest, nil, 403
		}
	default:
		return "", nil, 404
	}
	d, ok := r.Blobs[digest]
	if !ok {
		return digest, nil, 404
	}
	if r.Mutate != nil {
		d = r.Mutate(digest, d)
	}
	return digest, d, 200
}

func (r *Registry) serve(t *simrt.Task, rec *Request, req *http.Request, fault string) *http.Response {
	if r.Extra != nil {
		if resp := r.Extra(rec, req); resp != nil {
			return resp
		}
	}
	digest, data, st := r.blobFor(rec, req)
	rec.Blob = digest
	if st == 403 {
		rec.Shape = "expired"
		r.Stats["expired403"]++
		return r.plain(req, 403, nil, nil)
	}
	if st != 200 {
		return r.plain(req, st, nil, nil)
	}
	size := int64(len(data))
	// redirect at the registry host
	if (req.URL.Host == r.Cfg.Host || r.isAlt(req.URL.Host)) && r.Cfg.Redirect {
		r.nextTok++
		id := fmt.Sprintf("t%d", r.nextTok)
		r.tokens[id] = &token{digest: digest}
		rec.Shape = "redirect"
		r.Stats["redirect"]++
		h := http.Header{}
		h.Set("Location", fmt.Sprintf("https://%s/blob/%s?token=%s", r.Cfg.CDNHost, digest, id))
		return r.plain(req, 307, h, nil)
	}
	if req.URL.Host == r.Cfg.CDNHost && r.Cfg.CDNSecondHop && req.URL.Query().Get("hop") == "" {
		rec.Shape = "redirect2"
		r.Stats["redirect2"]++
		h := http.Header{}
		h.Set("Location", fmt.Sprintf("https://%s/blob/%s?token=%s&hop=2", r.Cfg.CDNHost, digest, req.URL.Query().Get("token")))
		return r.plain(req, 302, h, nil)
	}
	if req.URL.Host == r.Cfg.CDNHost {
		tk := r.tokens[req.URL.Query().Get("token")]
		if r.Cfg.ExpireDen > 0 && tk.uses > 0 && r.draw(t, r.Cfg.ExpireDen) == 0 {
			tk.dead = true
			rec.Shape = "expired"
			r.Stats["expired403"]++
			return r.plain(req, 403, nil, nil)
		}
		tk.uses++
	}
	pers := r.Cfg.Base
	headRefused := r.Cfg.HeadRefused
	if r.Cfg.Fickle {
		pers = Personality(r.draw(t, int(NumPersonalities)))
		headRefused = r.draw(t, 2) == 0
	}
	if req.Method == "HEAD" {
		if headRefused {
			rec.Shape = "head-refused"
			return r.plain(req, 405, nil, nil)
		}
		h := http.Header{}
		h.Set("Content-Length", strconv.FormatInt(size, 10))
		resp := r.plain(req, 200, h, nil)
		resp.ContentLength = size
		rec.Shape = "head"
		return resp
	}
	rh := req.Header.Get("Range")
	ranges, ok := parseRanges(rh, size)
	if rh == "" || !ok || pers == Whole {
		rec.Shape = "whole"
		r.Stats["shape.whole"]++
		h := http.Header{}
		h.Set("Content-Length", strconv.FormatInt(size, 10))
		return r.withBody(t, req, 200, h, data, fault)
	}
	rec.Ranges = ranges
	if len(ranges) == 0 {
		return r.plain(req, 416, nil, nil)
	}
	if len(ranges) > 1 && pers == SingleOnly {
		rec.Shape = "400-multirange"
		r.Stats["shape.400"]++
		return r.plain(req, 400, nil, nil)
	}
	sort.Slice(ranges, func(i, j int) bool { return ranges[i][0] < ranges[j][0] })
	switch {
	case pers == Super && len(ranges) > 1:
		ranges = [][2]int64{{ranges[0][0], ranges[len(ranges)-1][1]}}
		rec.Shape = "super"
		r.Stats["shape.super"]++
	case pers == Coalesce && len(ranges) > 1:
		var m [][2]int64
		for _, x := range ranges {
			if len(m) > 0 && r.draw(t, 2) == 0 {
				m[len(m)-1][1] = x[1]
			} else {
				m = append(m, x)
			}
		}
		ranges = m
		rec.Shape = "coalesce"
		r.Stats["shape.coalesce"]++
	}
	if len(ranges) == 1 {
		if rec.Shape == "" {
			rec.Shape = "single"
		}
		r.Stats["shape.single"]++
		b, e := ranges[0][0], ranges[0][1]
		h := http.Header{}
		h.Set("Content-Range", fmt.Sprintf("bytes %d-%d/%d", b, e, size))
		h.Set("Content-Length", strconv.FormatInt(e-b+1, 10))
		h.Set("Content-Type", "application/octet-stream")
		return r.withBody(t, req, 206, h, data[b:e+1], fault)
	}
	if rec.Shape == "" {
		rec.Shape = "multipart"
	}
	r.Stats["shape.multipart"]++
	if fault == "omit" && len(ranges) > 1 {
		k := r.draw(t, len(ranges))
		ranges = append(append([][2]int64{}, ranges[:k]...), ranges[k+1:]...)
	}
	var buf bytes.Buffer
	mw := multipart.NewWriter(&buf)
	mw.SetBoundary("simregboundary7MA4YWxkTrZu0gW")
	for _, x := range ranges {
		ph := textproto.MIMEHeader{}
		ph.Set("Content-Type", "application/octet-stream")
		ph.Set("Content-Range", fmt.Sprintf("bytes %d-%d/%d", x[0], x[1], size))
		pw, _ := mw.CreatePart(ph)
		pw.Write(data[x[0] : x[1]+1])
	}
	mw.Close()
	h := http.Header{}
	h.Set("Content-Type", "multipart/byteranges; boundary="+mw.Boundary())
	h.Set("Content-Length", strconv.Itoa(buf.Len()))
	return r.withBody(t, req, 206, h, buf.Bytes(), fault)
}

func (r *Registry) withBody(t *simrt.Task, req *http.Request, code int, h http.Header, body []byte, fault string) *http.Response {
	resp := r.plain(req, code, h, nil)
	resp.ContentLength = int64(len(body))
	b := &simBody{r: r, data: body, ctx: req.Context()}
	switch fault {
	case "truncate":
		if len(body) > 0 {
			b.data = body[:r.draw(t, len(body))]
		}
		b.endErr = io.ErrUnexpectedEOF
	case "readerr":
		if len(body) > 0 {
			b.data = body[:r.draw(t, len(body))]
		}
		b.endErr = errors.New("simreg: connection reset by peer")
	}
	resp.Body = b
	if req.Method == "HEAD" {
		resp.Body = http.NoBody
	}
	return resp
}

type simBody struct {
	r      *Registry
	data   []byte
	off    int
	endErr error
	ctx    context.Context
	closed bool
}

func (b *simBody) Read(p []byte) (int, error) {
	if b.closed {
		return 0, errors.New("simreg: read on closed body")
	}
	if len(p) == 0 {
		return 0, nil
	}
	n := len(b.data) - b.off
	if b.r.Cfg.ReadYield {
		if t := simrt.Cur(); t != nil && !t.IsDead() {
			if b.r.S.Tape.Draw("body:"+t.Label, 4) == 0 {
				t.Yield("http.body")
			}
			if n > 1 && b.r.S.Tape.Draw("body:"+t.Label, 3) == 0 {
				n = 1 + b.r.S.Tape.Draw("body:"+t.Label, n)
			}
		}
		if err := b.ctx.Err(); err != nil {
			return 0, err
		}
	}
	if n == 0 {
		if b.endErr != nil {
			return 0, b.endErr
		}
		return 0, io.EOF
	}
	if n > len(p) {
		n = len(p)
	}
	copy(p, b.data[b.off:b.off+n])
	b.off += n
	return n, nil
}

func (b *simBody) Close() error {
	b.closed = true
	return nil
}
