package simrt

import "testing"

func TestGoidFast(t *testing.T) {
	if goidOff == 0 {
		t.Fatal("goid offset not discovered")
	}
	for i := 0; i < 50; i++ {
		done := make(chan bool)
		go func() { done <- goid() == slowGoid() }()
		if !<-done {
			t.Fatal("fast goid differs")
		}
	}
	t.Logf("goid offset %d", goidOff)
}
