#include "textflag.h"

// func getg() uintptr
TEXT ·getg(SB),NOSPLIT,$0-8
	MOVQ (TLS), AX
	MOVQ AX, ret+0(FP)
	RET
