package simrt_test

import (
	"fmt"
	"testing"
	"time"

	"verifsim/simrt"
	"verifsim/simsync"
)

func workload(s *simrt.Sim, mt *simrt.Task) {
	var mu simsync.Mutex
	cond := simsync.NewCond(&mu)
	x := 0
	ch := make(chan int)
	var ts []*simrt.Task
	for i := 0; i < 3; i++ {
		i := i
		ts = append(ts, s.Go(fmt.Sprintf("c%d", i), func(t *simrt.Task) {
			for j := 0; j < 4; j++ {
				mu.Lock()
				x++
				s.Event("inc %d %d -> %d", i, j, x)
				if s.Tape.Draw(t.Label, 3) == 0 {
					time.Sleep(time.Duration(1+s.Tape.Draw(t.Label, 5)) * time.Second)
					simrt.Resume("sleep")
				}
				cond.Broadcast()
				mu.Unlock()
			}
			if i == 0 {
				ch <- 1
				simrt.Resume("send")
			}
		}))
	}
	ts = append(ts, s.Go("waiter", func(t *simrt.Task) {
		mu.Lock()
		for x < 12 {
			cond.Wait()
		}
		mu.Unlock()
		s.Event("waiter saw %d", x)
	}))
	ts = append(ts, s.Go("recv", func(t *simrt.Task) {
		v := <-ch
		simrt.Resume("recv")
		s.Event("recv %d", v)
	}))
	time.AfterFunc(3*time.Second, simrt.WrapF("af", func() {
		mu.Lock()
		s.Event("timer x=%d", x)
		mu.Unlock()
	}))
	mt.Join(ts...)
}

func TestDeterminism(t *testing.T) {
	distinct := map[string]bool{}
	for seed := uint64(1); seed <= 300; seed++ {
		r1 := simrt.Run(t, simrt.NewTape(seed), simrt.Options{}, workload)
		r2 := simrt.Run(t, simrt.NewTape(seed), simrt.Options{}, workload)
		if r1.LogHash != r2.LogHash || r1.Steps != r2.Steps {
			t.Fatalf("seed %d diverged: %v vs %v", seed, r1, r2)
		}
		if r1.Verdict != "" || len(r1.Violations) > 0 {
			t.Fatalf("seed %d: verdict %q %v", seed, r1.Verdict, r1.LogTail)
		}
		distinct[r1.LogHash] = true
	}
	t.Logf("distinct logs: %d", len(distinct))
}

func TestHang(t *testing.T) {
	r := simrt.Run(t, simrt.NewTape(1), simrt.Options{HangAfter: time.Hour}, func(s *simrt.Sim, mt *simrt.Task) {
		var mu simsync.Mutex
		mu.Lock()
		a := s.Go("a", func(t *simrt.Task) { mu.Lock() })
		mt.Join(a)
	})
	if r.Verdict != "hang" {
		t.Fatalf("want hang, got %+v", r)
	}
	t.Logf("%v bubble=%q", r.LogTail, r.BubblePanic)
	// another run afterwards must work
	r = simrt.Run(t, simrt.NewTape(2), simrt.Options{}, workload)
	if r.Verdict != "" {
		t.Fatalf("%+v", r)
	}
}
