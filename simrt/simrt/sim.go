package simrt

import (
	"crypto/sha256"
	"encoding/hex"
	"fmt"
	"os"
	"runtime"
	"runtime/debug"
	"sort"
	"strings"
	"sync"
	"sync/atomic"
	"testing"
	"testing/synctest"
	"time"
)

// Task states.
const (
	stNew int32 = iota
	stParked
	stRunning
	stExt // was running, found durably blocked on a real primitive at quiescence
	stDone
)

// Task is a goroutine executing repository or harness code under the scheduler.
type Task struct {
	S        *Sim
	Label    string
	state    int32
	gate     chan struct{}
	pred     func() bool
	site     string
	nopark   int
	children map[string]int
	goid     uint64
	prio     int
	// AcqSeq is the event sequence number of the most recent simsync
	// acquisition by this task (linearisation points for oracles).
	AcqSeq  uint64
	AcqCnt  uint64
	Sched   uint64 // how many times the scheduler picked this task (its progress in scheduling points)
	RecAcq  bool   // record every acquisition's sequence number in AcqLog
	AcqLog  []uint64
	Local   map[string]any
	started bool
}

type Violation struct {
	Oracle string `json:"oracle"`
	Msg    string `json:"msg"`
	Seq    uint64 `json:"seq"`
	SimNs  int64  `json:"sim_ns"`
}

// Options of one run.
type Options struct {
	MaxSteps   int           // scheduler step budget (0 = 200000)
	HangAfter  time.Duration // simulated time without any enabled task before "hang" (0 = 6h)
	KeepLog    int           // keep the last N events (0 = 4000)
	NoSchedCfg bool          // do not draw the scheduling policy (always uniform)
	NoStall    bool          // never let simulated time pass while a task is enabled
}

// Sim is one simulated run.
type Sim struct {
	Tape *Tape
	opt  Options

	mu       sync.Mutex // real; held only for a few instructions, never across a park
	tasks    []*Task
	current  *Task
	wake     chan struct{}
	dead     atomic.Bool
	stop     atomic.Bool
	mainDone atomic.Bool

	schedGoid uint64
	Steps     int
	seq       uint64
	start     time.Time
	hash      [32]byte
	schedH    [32]byte
	log       []string
	orphanN   int
	adoptN    int
	policy    int
	stallDen  int
	Stalls    []time.Duration

	// OSHook is consulted by simos before (after=false) and after every
	// rewritten os call. It may yield, inject an error (before only) or record a
	// crash image.
	OSHook         func(t *Task, op string, after bool, paths []string) error
	SplitRemoveAll bool
	// Procs is what repository code sees as runtime.GOMAXPROCS(0) (0 = real value).
	Procs int

	Stats      map[string]int
	mapW       map[uintptr]*Task // maps in the middle of a modelled write (see MapWriteBegin)
	closers    []func()          // run when the run ends (pipes created by repository code)
	Violations []Violation
	Verdict    string // "", "hang", "budget", "panic"
	PanicInfo  string
	Notes      []string
}

var active atomic.Pointer[Sim]

var debugAdopt = os.Getenv("VERIF_DEBUG_ADOPT") != ""

var (
	gmu  sync.Mutex
	gmap = map[uint64]*Task{}
	// outsiders are goroutines started by repository code while no simulation was
	// active (e.g. helpers of a build done before the run). They live outside any
	// bubble and must never be adopted as tasks.
	outsiders = map[uint64]bool{}
)

func outside(fn func()) func() {
	return func() {
		id := goid()
		gmu.Lock()
		outsiders[id] = true
		gmu.Unlock()
		defer func() {
			gmu.Lock()
			delete(outsiders, id)
			gmu.Unlock()
		}()
		fn()
	}
}

// Active reports whether a simulation is running in this process.
func Active() bool { return active.Load() != nil }

// ActiveSim returns the running simulation or nil.
func ActiveSim() *Sim { return active.Load() }

// Cur returns the task of the calling goroutine, or nil when no simulation is
// active. Unknown goroutines that reach repository code while a simulation is
// active are adopted as tasks (counted in Stats["adopted"]).
func Cur() *Task {
	s := active.Load()
	if s == nil {
		// A goroutine leaked from a finished run may still get here.
		gmu.Lock()
		n := len(gmap)
		gmu.Unlock()
		if n == 0 {
			return nil
		}
		id := goid()
		gmu.Lock()
		t := gmap[id]
		gmu.Unlock()
		return t
	}
	id := goid()
	gmu.Lock()
	t := gmap[id]
	out := outsiders[id]
	gmu.Unlock()
	if t != nil {
		return t
	}
	if out || id == s.schedGoid {
		return nil
	}
	// adopt
	s.mu.Lock()
	s.adoptN++
	t = s.newTaskLocked(fmt.Sprintf("adopted#%d", s.adoptN))
	t.state = stRunning
	t.started = true
	s.Stats["adopted"]++
	s.mu.Unlock()
	if debugAdopt {
		fmt.Fprintf(os.Stderr, "ADOPT seed=%d %s\n%s\n", s.Tape.Seed, t.Label, debug.Stack())
	}
	t.goid = id
	gmu.Lock()
	gmap[id] = t
	gmu.Unlock()
	return t
}

func (s *Sim) newTaskLocked(label string) *Task {
	t := &Task{S: s, Label: label, gate: make(chan struct{}, 1), children: map[string]int{}}
	s.tasks = append(s.tasks, t)
	return t
}

// ---------------------------------------------------------------------------------
// parking

func (t *Task) dead() bool { return t.S.dead.Load() }

func (t *Task) park(pred func() bool, site string) {
	s := t.S
	if s.dead.Load() {
		runtime.Goexit()
	}
	s.mu.Lock()
	t.pred = pred
	t.site = site
	t.state = stParked
	if s.current == t {
		s.current = nil
	}
	s.mu.Unlock()
	select {
	case s.wake <- struct{}{}:
	default:
	}
	<-t.gate
	if s.dead.Load() {
		runtime.Goexit()
	}
}

// Yield is a scheduling point: the task parks and is always enabled.
func (t *Task) Yield(site string) {
	if t == nil {
		return
	}
	if t.S.dead.Load() {
		runtime.Goexit()
	}
	if t.nopark > 0 {
		return
	}
	t.park(nil, site)
}

// Block parks the task until pred holds and the scheduler selects it. pred is
// evaluated only by the scheduler at quiescence.
func (t *Task) Block(site string, pred func() bool) {
	if t.nopark > 0 {
		t.S.Stat("nopark_block", 1)
	}
	t.park(pred, site)
}

// Acquired is called by simsync after every lock acquisition.
func (t *Task) Acquired() {
	t.AcqCnt++
	t.AcqSeq = t.S.Seq()
	if t.RecAcq {
		t.AcqLog = append(t.AcqLog, t.AcqSeq)
	}
}

// NoPark / Park bracket a region in which Yield does not park (code that holds
// a real lock of a dependency, e.g. a bolt transaction).
func (t *Task) NoPark() {
	if t != nil {
		t.nopark++
	}
}
func (t *Task) Park() {
	if t != nil && t.nopark > 0 {
		t.nopark--
	}
}

// Yield is the package-level scheduling point inserted by the instrumenter.
func Yield(site string) {
	if t := Cur(); t != nil {
		t.Yield(site)
	}
}

// Resume is inserted after a statement that may have blocked on a real
// primitive: the task re-enters scheduler control before running more code.
func Resume(site string) {
	if t := Cur(); t != nil {
		t.Yield(site)
	}
}

// NoParkBegin/NoParkEnd are inserted around bolt transaction bodies.
func NoParkBegin() *Task {
	t := Cur()
	t.NoPark()
	return t
}
func NoParkEnd(t *Task) { t.Park() }

// ---------------------------------------------------------------------------------
// spawning

func (s *Sim) childLabel(site string) string {
	p := Cur()
	if p == nil {
		s.mu.Lock()
		s.orphanN++
		n := s.orphanN
		s.mu.Unlock()
		return fmt.Sprintf("orphan/%s#%d", site, n)
	}
	n := p.children[site]
	p.children[site] = n + 1
	return fmt.Sprintf("%s/%s#%d", p.Label, site, n)
}

func (s *Sim) spawn(label string, fn func()) *Task {
	s.mu.Lock()
	t := s.newTaskLocked(label)
	s.mu.Unlock()
	go s.runTask(t, fn)
	return t
}

func (s *Sim) runTask(t *Task, fn func()) {
	id := goid()
	t.goid = id
	gmu.Lock()
	gmap[id] = t
	gmu.Unlock()
	defer func() {
		if r := recover(); r != nil {
			s.recordPanic(t, r, debug.Stack())
		}
		gmu.Lock()
		delete(gmap, id)
		gmu.Unlock()
		s.mu.Lock()
		t.state = stDone
		if s.current == t {
			s.current = nil
		}
		s.mu.Unlock()
		select {
		case s.wake <- struct{}{}:
		default:
		}
	}()
	t.started = true
	t.park(nil, "start")
	fn()
}

func (s *Sim) recordPanic(t *Task, r any, stack []byte) {
	s.mu.Lock()
	defer s.mu.Unlock()
	if s.dead.Load() {
		return
	}
	if s.PanicInfo == "" {
		s.PanicInfo = fmt.Sprintf("task %s: %v\n%s", t.Label, r, stack)
	}
	s.Verdict = "panic"
	s.stop.Store(true)
}

// Go starts a harness task with an explicit stable label.
func (s *Sim) Go(label string, fn func(t *Task)) *Task {
	var t *Task
	t = s.spawn(label, func() { fn(t) })
	return t
}

// Go replaces a `go` statement of repository code.
func Go(site string, fn func()) {
	s := active.Load()
	if s == nil || s.dead.Load() {
		if t := Cur(); t != nil && t.dead() {
			return // leaked task of a finished run: do not spawn
		}
		go outside(fn)()
		return
	}
	s.spawn(s.childLabel(site), fn)
}

// WrapF wraps a func started later by a dependency (time.AfterFunc, wg.Go): the
// child label is allocated now, in the parent.
func WrapF(site string, fn func()) func() {
	s := active.Load()
	if s == nil {
		return outside(fn)
	}
	label := s.childLabel(site)
	return func() {
		if s.dead.Load() {
			return
		}
		s.mu.Lock()
		t := s.newTaskLocked(label)
		s.mu.Unlock()
		s.runTask(t, fn)
	}
}

// WrapE is WrapF for errgroup.Go.
func WrapE(site string, fn func() error) func() error {
	s := active.Load()
	if s == nil {
		return func() (err error) {
			outside(func() { err = fn() })()
			return err
		}
	}
	label := s.childLabel(site)
	return func() (err error) {
		if s.dead.Load() {
			return nil
		}
		s.mu.Lock()
		t := s.newTaskLocked(label)
		s.mu.Unlock()
		s.runTask(t, func() { err = fn() })
		return err
	}
}

// Done reports whether the task has finished.
func (t *Task) Done() bool {
	t.S.mu.Lock()
	defer t.S.mu.Unlock()
	return t.state == stDone
}

// IsDead reports whether the task's run is over (leaked goroutine).
func (t *Task) IsDead() bool { return t.S.dead.Load() }

// LiveTasks returns the labels of the tasks that have not finished and whose label contains substr.
func (s *Sim) LiveTasks(substr string) []string {
	s.mu.Lock()
	defer s.mu.Unlock()
	var out []string
	for _, t := range s.tasks {
		if t.state != stDone && strings.Contains(t.Label, substr) {
			out = append(out, t.Label)
		}
	}
	return out
}

// Join parks the calling task until all given tasks are done.
func (t *Task) Join(ts ...*Task) {
	t.Block("join", func() bool {
		for _, o := range ts {
			if o.state != stDone {
				return false
			}
		}
		return true
	})
}

// Sleep sleeps on the simulated clock and re-enters scheduler control.
func (t *Task) Sleep(d time.Duration) {
	time.Sleep(d)
	t.Yield("sleep")
}

// ---------------------------------------------------------------------------------
// events, stats, verdicts

// Now is the simulated time since the start of the run.
func (s *Sim) Now() time.Duration { return time.Since(s.start) }

// Event appends to the run's event log (hashed; the tail is kept).
func (s *Sim) Event(format string, args ...any) uint64 {
	line := fmt.Sprintf(format, args...)
	s.mu.Lock()
	s.seq++
	seq := s.seq
	full := fmt.Sprintf("%d %d %s", seq, int64(time.Since(s.start)), line)
	h := sha256.New()
	h.Write(s.hash[:])
	h.Write([]byte(full))
	copy(s.hash[:], h.Sum(nil))
	s.log = append(s.log, full)
	if len(s.log) > 2*s.opt.KeepLog {
		s.log = append([]string(nil), s.log[len(s.log)-s.opt.KeepLog:]...)
	}
	s.mu.Unlock()
	return seq
}

// Seq returns the next global event sequence number without logging.
func (s *Sim) Seq() uint64 {
	s.mu.Lock()
	s.seq++
	v := s.seq
	s.mu.Unlock()
	return v
}

func (s *Sim) Stat(name string, n int) {
	s.mu.Lock()
	s.Stats[name] += n
	s.mu.Unlock()
}

// Fail records an oracle violation and ends the run.
func (s *Sim) Fail(oracle, format string, args ...any) {
	msg := fmt.Sprintf(format, args...)
	s.mu.Lock()
	s.seq++
	s.Violations = append(s.Violations, Violation{Oracle: oracle, Msg: msg, Seq: s.seq, SimNs: int64(time.Since(s.start))})
	s.mu.Unlock()
	s.Event("VIOLATION %s %s", oracle, msg)
	s.stop.Store(true)
}

func (s *Sim) Failed() bool { return s.stop.Load() }

func (s *Sim) Note(format string, args ...any) {
	s.mu.Lock()
	if len(s.Notes) < 50 {
		s.Notes = append(s.Notes, fmt.Sprintf(format, args...))
	}
	s.mu.Unlock()
}

// LogTail returns the last n events.
func (s *Sim) LogTail(n int) []string {
	s.mu.Lock()
	defer s.mu.Unlock()
	if n > len(s.log) {
		n = len(s.log)
	}
	return append([]string(nil), s.log[len(s.log)-n:]...)
}

// ---------------------------------------------------------------------------------
// scheduler

const (
	polUniform = iota
	polSticky
	polPrio
	polCount
)

func (s *Sim) enabled() []*Task {
	var e []*Task
	for _, t := range s.tasks {
		if t.state == stParked && (t.pred == nil || t.pred()) {
			e = append(e, t)
		}
	}
	sort.Slice(e, func(i, j int) bool { return e[i].Label < e[j].Label })
	return e
}

func (s *Sim) pick(e []*Task, last *Task) *Task {
	n := len(e)
	if n == 1 {
		return e[0]
	}
	switch s.policy {
	case polSticky:
		if last != nil {
			for _, t := range e {
				if t == last {
					if s.Tape.Draw("sched", 8) != 7 {
						return t
					}
					break
				}
			}
		}
		return e[s.Tape.Draw("sched", n)]
	case polPrio:
		// PCT-like: each task has a priority drawn when first seen; the highest
		// runs; occasionally the running task is demoted.
		best := e[0]
		for _, t := range e {
			if t.prio == 0 {
				t.prio = 1 + s.Tape.Draw("prio:"+t.Label, 1000)
			}
			if t.prio > best.prio || (t.prio == best.prio && t.Label < best.Label) {
				best = t
			}
		}
		if s.Tape.Draw("sched", 16) == 15 {
			best.prio = 1 + s.Tape.Draw("prio:"+best.Label, 1000)/4
		}
		return best
	default:
		return e[s.Tape.Draw("sched", n)]
	}
}

func (s *Sim) schedule() {
	var last *Task
	hang := time.NewTimer(s.opt.HangAfter)
	defer hang.Stop()
	for {
		synctest.Wait()
		s.mu.Lock()
		if c := s.current; c != nil && c.state == stRunning {
			c.state = stExt
			s.current = nil
		}
		s.mu.Unlock()
		if s.stop.Load() {
			return
		}
		if s.mainDone.Load() {
			return
		}
		e := s.enabled()
		if len(e) == 0 {
			// nothing runnable: let the simulated clock advance
			if !hang.Stop() {
				select {
				case <-hang.C:
				default:
				}
			}
			hang.Reset(s.opt.HangAfter)
			select {
			case <-s.wake:
			case <-hang.C:
				s.Verdict = "hang"
				s.Event("HANG: no task enabled for %v of simulated time; %s", s.opt.HangAfter, s.describeTasks())
				return
			}
			continue
		}
		if s.Steps >= s.opt.MaxSteps {
			s.Verdict = "budget"
			if debugAdopt {
				buf := make([]byte, 1<<20)
				fmt.Fprintf(os.Stderr, "BUDGET STACKS\n%s\n", buf[:runtime.Stack(buf, true)])
			}
			s.Event("BUDGET: %d steps; %s", s.Steps, s.describeTasks())
			return
		}
		// optional stall: let time pass although work is ready
		if s.stallDen > 0 && len(s.Stalls) > 0 && s.Tape.Draw("stall", s.stallDen) == s.stallDen-1 {
			d := s.Stalls[s.Tape.Draw("stall.d", len(s.Stalls))]
			s.Stat("stall", 1)
			select {
			case <-s.wake:
			default:
			}
			tm := time.NewTimer(d)
			select {
			case <-s.wake:
				tm.Stop()
			case <-tm.C:
			}
			continue
		}
		t := s.pick(e, last)
		last = t
		s.Steps++
		// schedule-relevant hash: who ran from where
		h := sha256.New()
		h.Write(s.schedH[:])
		h.Write([]byte(t.Label))
		h.Write([]byte{0})
		h.Write([]byte(t.site))
		copy(s.schedH[:], h.Sum(nil))
		s.mu.Lock()
		t.state = stRunning
		t.pred = nil
		t.Sched++
		s.current = t
		s.mu.Unlock()
		t.gate <- struct{}{}
	}
}

func (s *Sim) describeTasks() string {
	var b strings.Builder
	s.mu.Lock()
	defer s.mu.Unlock()
	ts := append([]*Task(nil), s.tasks...)
	sort.Slice(ts, func(i, j int) bool { return ts[i].Label < ts[j].Label })
	n := 0
	for _, t := range ts {
		if t.state == stDone {
			continue
		}
		n++
		if n > 12 {
			b.WriteString("...")
			break
		}
		st := map[int32]string{stNew: "new", stParked: "parked", stRunning: "running", stExt: "ext-blocked"}[t.state]
		fmt.Fprintf(&b, "[%s %s@%s] ", t.Label, st, t.site)
	}
	return b.String()
}

// kill ends the run: every parked task exits at its park point.
func (s *Sim) kill() {
	s.dead.Store(true)
	s.mu.Lock()
	ts := append([]*Task(nil), s.tasks...)
	closers := s.closers
	s.closers = nil
	s.mu.Unlock()
	// goroutines of repository code blocked on a pipe whose other end was abandoned (e.g. the pump
	// of an estargz.Blob that is closed before it was read to the end) would stay blocked for ever
	// and keep their buffers: the run is over, break the pipes
	for _, c := range closers {
		c()
	}
	for _, t := range ts {
		select {
		case t.gate <- struct{}{}:
		default:
		}
	}
}

// Result of one run.
type Result struct {
	Steps       int
	SimNs       int64
	LogHash     string
	SchedHash   string
	Verdict     string
	PanicInfo   string
	BubblePanic string
	Violations  []Violation
	Stats       map[string]int
	Notes       []string
	LogTail     []string
	Draws       int
	Tasks       int
	Policy      int
}

// Run executes body as task "main" of a fresh simulation inside a synctest
// bubble and returns what happened. The run ends when main returns, a
// violation is recorded, the step budget is exhausted or nothing can run for
// HangAfter of simulated time.
func Run(t *testing.T, tape *Tape, opt Options, body func(s *Sim, main *Task)) *Result {
	if opt.MaxSteps == 0 {
		opt.MaxSteps = 200000
	}
	if opt.HangAfter == 0 {
		opt.HangAfter = 6 * time.Hour
	}
	if opt.KeepLog == 0 {
		opt.KeepLog = 4000
	}
	res := &Result{}
	var s *Sim
	func() {
		defer func() {
			if r := recover(); r != nil {
				res.BubblePanic = fmt.Sprint(r)
			}
			active.Store(nil)
		}()
		synctest.Test(t, func(t *testing.T) {
			s = &Sim{Tape: tape, opt: opt, wake: make(chan struct{}, 1), Stats: map[string]int{}, start: time.Now()}
			s.schedGoid = goid()
			if !opt.NoSchedCfg {
				s.policy = tape.Draw("cfg.policy", polCount)
				if !opt.NoStall {
					s.stallDen = []int{0, 0, 64, 16}[tape.Draw("cfg.stall", 4)]
				}
			}
			active.Store(s)
			s.Go("main", func(mt *Task) {
				body(s, mt)
				s.mainDone.Store(true)
			})
			s.schedule()
			res.Steps = s.Steps
			res.SimNs = int64(time.Since(s.start))
			s.kill()
			// Let what the run left behind unwind before the bubble is abandoned: goroutines of
			// dependencies waiting on timers of this bubble's clock (net/http request timeouts, retry
			// back-offs) would otherwise stay blocked for ever once the bubble's clock stops, with
			// everything they reference (C18 leaked 90 MB/s per worker). Simulated time is free.
			for i := 0; i < 3; i++ {
				synctest.Wait()
				time.Sleep(20 * time.Minute)
			}
			synctest.Wait()
			active.Store(nil)
		})
	}()
	if s != nil {
		s.mu.Lock()
		res.LogHash = hex.EncodeToString(s.hash[:8])
		res.SchedHash = hex.EncodeToString(s.schedH[:8])
		res.Verdict = s.Verdict
		res.PanicInfo = s.PanicInfo
		res.Violations = append(res.Violations, s.Violations...)
		res.Stats = map[string]int{}
		for k, v := range s.Stats {
			res.Stats[k] = v
		}
		res.Notes = s.Notes
		n := len(s.log)
		if n > 60 {
			n = 60
		}
		res.LogTail = append([]string(nil), s.log[len(s.log)-n:]...)
		res.Tasks = len(s.tasks)
		res.Policy = s.policy
		s.mu.Unlock()
		res.Draws = tape.Draws
	}
	return res
}
