package simrt

import (
	"os"
	"syscall"
)

// DiskCfg configures the standard disk hook.
type DiskCfg struct {
	Yield    bool            // every rewritten os call is a scheduling point
	FaultDen int             // 0 = no faults; otherwise each eligible call fails with probability 1/FaultDen
	Kinds    map[string]bool // ops eligible for faults (nil = all mutating ops)
	Only     func(op string, paths []string) bool
}

var mutating = map[string]bool{"OpenFile": true, "Create": true, "CreateTemp": true, "Mkdir": true, "MkdirAll": true,
	"MkdirTemp": true, "Rename": true, "Remove": true, "RemoveAll": true, "WriteFile": true, "Symlink": true, "Link": true, "Open": true}

// UseDisk installs the standard disk hook: scheduling point before every
// rewritten os call and, if configured, seeded whole-call errors (EIO/ENOSPC).
func (s *Sim) UseDisk(cfg DiskCfg) {
	s.OSHook = func(t *Task, op string, after bool, paths []string) error {
		if after {
			// the state right after a mutating call must be observable by others
			if cfg.Yield && mutating[op] {
				t.Yield("os." + op + ".done")
			}
			return nil
		}
		if cfg.Yield {
			t.Yield("os." + op)
		}
		if cfg.FaultDen > 0 && (cfg.Kinds == nil && mutating[op] || cfg.Kinds[op]) && (cfg.Only == nil || cfg.Only(op, paths)) {
			if s.Tape.Draw("osfault:"+t.Label, cfg.FaultDen) == cfg.FaultDen-1 {
				s.Stat("fault.os."+op, 1)
				p := ""
				if len(paths) > 0 {
					p = paths[0]
				}
				e := syscall.EIO
				if s.Tape.Draw("osfault:"+t.Label, 2) == 1 {
					e = syscall.ENOSPC
				}
				s.Event("fault os.%s %v", op, e)
				return &os.PathError{Op: op, Path: p, Err: e}
			}
		}
		return nil
	}
}
