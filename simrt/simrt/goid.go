package simrt

import (
	"runtime"
	"unsafe"
)

func getg() uintptr

// goidOff is the offset of the goid field inside the runtime's g struct,
// discovered at start-up by comparing against the id parsed from
// runtime.Stack in several goroutines; 0 = unknown (slow path is used).
var goidOff uintptr

func slowGoid() uint64 {
	var buf [40]byte
	n := runtime.Stack(buf[:], false)
	var id uint64
	for i := 10; i < n; i++ {
		c := buf[i]
		if c < '0' || c > '9' {
			break
		}
		id = id*10 + uint64(c-'0')
	}
	return id
}

func candidates() map[uintptr]bool {
	g := getg()
	id := slowGoid()
	c := map[uintptr]bool{}
	for off := uintptr(0); off < 512; off += 8 {
		if *(*uint64)(unsafe.Pointer(g + off)) == id {
			c[off] = true
		}
	}
	return c
}

func init() {
	// intersect the candidate offsets seen by several goroutines (ids differ)
	res := make(chan map[uintptr]bool)
	var common map[uintptr]bool
	for i := 0; i < 4; i++ {
		go func() { res <- candidates() }()
		c := <-res
		if common == nil {
			common = c
			continue
		}
		for k := range common {
			if !c[k] {
				delete(common, k)
			}
		}
	}
	if len(common) == 1 {
		for k := range common {
			goidOff = k
		}
	}
}

// goid returns the id of the calling goroutine in O(1) (runtime.Stack unwinds
// the whole stack to print its outermost frames, which is quadratic for the
// deep recursions some workloads provoke).
func goid() uint64 {
	if goidOff != 0 {
		return *(*uint64)(unsafe.Pointer(getg() + goidOff))
	}
	return slowGoid()
}
