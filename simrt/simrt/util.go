package simrt

import (
	"cmp"
	"errors"
	"fmt"
	"io"
	"reflect"
	"runtime"
	"sort"
)

// SortedKeys returns the keys of m in a deterministic order. The instrumenter
// rewrites every `range` over a map in repository code to iterate this slice
// (Go randomises map iteration per loop and that cannot be seeded).
func SortedKeys[M ~map[K]V, K comparable, V any](m M) []K {
	keys := make([]K, 0, len(m))
	for k := range m {
		keys = append(keys, k)
	}
	if len(keys) < 2 {
		return keys
	}
	switch ks := any(keys).(type) {
	case []string:
		sort.Strings(ks)
		return keys
	case []int:
		sort.Ints(ks)
		return keys
	case []int64:
		sort.Slice(ks, func(i, j int) bool { return ks[i] < ks[j] })
		return keys
	case []uint32:
		sort.Slice(ks, func(i, j int) bool { return ks[i] < ks[j] })
		return keys
	case []uint64:
		sort.Slice(ks, func(i, j int) bool { return ks[i] < ks[j] })
		return keys
	}
	rv := reflect.ValueOf(keys[0])
	switch rv.Kind() {
	case reflect.String:
		sort.Slice(keys, func(i, j int) bool {
			return cmp.Less(reflect.ValueOf(keys[i]).String(), reflect.ValueOf(keys[j]).String())
		})
		return keys
	case reflect.Int, reflect.Int8, reflect.Int16, reflect.Int32, reflect.Int64:
		sort.Slice(keys, func(i, j int) bool { return reflect.ValueOf(keys[i]).Int() < reflect.ValueOf(keys[j]).Int() })
		return keys
	case reflect.Uint, reflect.Uint8, reflect.Uint16, reflect.Uint32, reflect.Uint64:
		sort.Slice(keys, func(i, j int) bool { return reflect.ValueOf(keys[i]).Uint() < reflect.ValueOf(keys[j]).Uint() })
		return keys
	case reflect.Struct:
		// structs of integers/strings (e.g. fs/remote.region{b,e}): compare field by field
		sort.Slice(keys, func(i, j int) bool { return lessStruct(reflect.ValueOf(keys[i]), reflect.ValueOf(keys[j])) })
		return keys
	case reflect.Pointer, reflect.Interface, reflect.Chan:
		// identity keys have no stable order across processes; order by a
		// registration index assigned the first time each is seen in this run.
		sort.Slice(keys, func(i, j int) bool { return identOrder(keys[i]) < identOrder(keys[j]) })
		return keys
	}
	sort.Slice(keys, func(i, j int) bool { return fmt.Sprint(keys[i]) < fmt.Sprint(keys[j]) })
	return keys
}

func lessStruct(a, b reflect.Value) bool {
	for i := 0; i < a.NumField(); i++ {
		fa, fb := a.Field(i), b.Field(i)
		switch fa.Kind() {
		case reflect.Int, reflect.Int8, reflect.Int16, reflect.Int32, reflect.Int64:
			if fa.Int() != fb.Int() {
				return fa.Int() < fb.Int()
			}
		case reflect.Uint, reflect.Uint8, reflect.Uint16, reflect.Uint32, reflect.Uint64:
			if fa.Uint() != fb.Uint() {
				return fa.Uint() < fb.Uint()
			}
		case reflect.String:
			if fa.String() != fb.String() {
				return fa.String() < fb.String()
			}
		default:
			sa, sb := fmt.Sprint(fa), fmt.Sprint(fb)
			if sa != sb {
				return sa < sb
			}
		}
	}
	return false
}

var identMap = map[any]int{}

func identOrder(k any) int {
	gmu.Lock()
	defer gmu.Unlock()
	if v, ok := identMap[k]; ok {
		return v
	}
	v := len(identMap) + 1
	identMap[k] = v
	return v
}

// ResetIdent forgets identity-order registrations (called between runs).
func ResetIdent() {
	gmu.Lock()
	identMap = map[any]int{}
	gmu.Unlock()
}

// ZeroRecv returns the zero value of a channel's element type (used by the
// rewritten select statements to declare receive temporaries).
func ZeroRecv[T any](c <-chan T) (v T, ok bool) { return }

// SelectOrder returns the order in which a rewritten select polls its cases:
// a rotation drawn from the calling task's stream, so that the choice among
// several ready cases is a replayable tape decision.
func SelectOrder(site string, n int) []int {
	order := make([]int, n)
	start := 0
	if t := Cur(); t != nil && !t.IsDead() && n > 1 {
		start = t.S.Tape.Draw("sel:"+t.Label, n)
	}
	for i := range order {
		order[i] = (start + i) % n
	}
	return order
}

// RandReader is an io.Reader of tape-drawn bytes (replaces crypto/rand.Reader
// where the repository uses it for retry jitter). Outside a simulation it
// yields zeros.
type RandReader struct{}

func (RandReader) Read(p []byte) (int, error) {
	t := Cur()
	for i := range p {
		if t != nil && !t.IsDead() {
			p[i] = byte(t.S.Tape.Draw("rand:"+t.Label, 256))
		} else {
			p[i] = 0
		}
	}
	return len(p), nil
}

// GOMAXPROCS replaces runtime.GOMAXPROCS in repository code: worker-pool sizes
// derived from it become a per-run configuration (Sim.Procs) instead of a
// property of the machine the check happens to run on.
func GOMAXPROCS(n int) int {
	if s := active.Load(); s != nil && s.Procs > 0 {
		return s.Procs
	}
	return runtime.GOMAXPROCS(n)
}

// MapWriteBegin / MapWriteEnd bracket a map element write in packages whose unsynchronised shared
// memory is modelled (instrumenter config "racy"). A map write is not atomic: the Go runtime marks
// the map as being written for the duration of the assignment and any writer that arrives meanwhile
// dies with "fatal error: concurrent map writes" (or, undetected, corrupts the map). The simulated
// machine makes the duration visible: the writer parks between marking and writing. Only schedules
// that real synchronisation allows can put a second writer there, so a report is never spurious.
func MapWriteBegin(m any, site string) uintptr {
	t := Cur()
	if t == nil || t.IsDead() {
		return 0
	}
	p := reflect.ValueOf(m).Pointer()
	if p == 0 {
		return 0
	}
	s := t.S
	s.mu.Lock()
	if s.mapW == nil {
		s.mapW = map[uintptr]*Task{}
	}
	other := s.mapW[p]
	if other == nil {
		s.mapW[p] = t
	}
	s.mu.Unlock()
	if other != nil && other != t {
		s.Stat("probe.concurrent_map_write", 1)
		s.Fail("concurrent-map-write", "task %s writes a map at %s while task %s is in the middle of writing the same map (unsynchronised: the Go runtime aborts the process with \"concurrent map writes\" or the map is corrupted)", t.Label, site, other.Label)
		return 0
	}
	t.Yield("mapwrite")
	return p
}

func MapWriteEnd(p uintptr) {
	if p == 0 {
		return
	}
	if t := Cur(); t != nil {
		t.S.mu.Lock()
		if t.S.mapW[p] == t {
			delete(t.S.mapW, p)
		}
		t.S.mu.Unlock()
	}
}

var errRunOver = errors.New("simrt: the simulated run is over")

// Pipe replaces io.Pipe in instrumented packages: the same pipe, remembered so that the end of the
// run can break it (see Sim.kill).
func Pipe() (*io.PipeReader, *io.PipeWriter) {
	pr, pw := io.Pipe()
	if t := Cur(); t != nil {
		s := t.S
		s.mu.Lock()
		s.closers = append(s.closers, func() { pr.CloseWithError(errRunOver); pw.CloseWithError(errRunOver) })
		s.mu.Unlock()
	}
	return pr, pw
}
