// Package simrt is the deterministic-simulation runtime: tape (the only source of
// choices), tasks, and the quiescence-driven scheduler that runs inside a
// testing/synctest bubble.
package simrt

import (
	"hash/fnv"
	"sort"
)

// Tape is the single source of every choice of a run. It is a set of streams;
// the i-th draw of stream s is PRF(seed, s, i) when generating and the recorded
// value when replaying. Per-stream indexing keeps draws of different tasks
// independent of the order in which the tasks happen to reach them.
type Tape struct {
	Seed   uint64
	replay map[string][]uint64 // nil in generation mode
	rec    map[string][]uint64
	bounds map[string][]uint64
	Draws  int
	// Strict replay: a draw beyond the recorded stream returns 0.
}

func NewTape(seed uint64) *Tape {
	return &Tape{Seed: seed, rec: map[string][]uint64{}, bounds: map[string][]uint64{}}
}

// NewReplayTape replays the recorded values; draws beyond the record yield 0
// (the "simplest" choice everywhere: no fault, first task, stop generating).
func NewReplayTape(seed uint64, rec map[string][]uint64) *Tape {
	t := NewTape(seed)
	t.replay = map[string][]uint64{}
	for k, v := range rec {
		t.replay[k] = append([]uint64(nil), v...)
	}
	return t
}

func splitmix(x uint64) uint64 {
	x += 0x9e3779b97f4a7c15
	x = (x ^ (x >> 30)) * 0xbf58476d1ce4e5b9
	x = (x ^ (x >> 27)) * 0x94d049bb133111eb
	return x ^ (x >> 31)
}

func hashStr(s string) uint64 {
	h := fnv.New64a()
	h.Write([]byte(s))
	return h.Sum64()
}

// Mix derives a sub-seed.
func Mix(a, b uint64) uint64 { return splitmix(splitmix(a) ^ splitmix(b+0x1234567)) }

// Draw returns a value in [0,n) from the named stream. n<=1 returns 0 without
// consuming a draw.
func (t *Tape) Draw(stream string, n int) int {
	if n <= 1 {
		return 0
	}
	i := len(t.rec[stream])
	var v uint64
	if t.replay != nil {
		if r := t.replay[stream]; i < len(r) {
			v = r[i] % uint64(n)
		}
	} else {
		v = splitmix(t.Seed^splitmix(hashStr(stream))^splitmix(uint64(i)*0x9e3779b97f4a7c15+1)) % uint64(n)
	}
	t.rec[stream] = append(t.rec[stream], v)
	t.bounds[stream] = append(t.bounds[stream], uint64(n))
	t.Draws++
	return int(v)
}

// Chance returns true with probability num/den.
func (t *Tape) Chance(stream string, num, den int) bool {
	if num <= 0 {
		return false
	}
	return t.Draw(stream, den) < num
}

// Record returns a copy of everything drawn so far.
func (t *Tape) Record() map[string][]uint64 {
	out := make(map[string][]uint64, len(t.rec))
	for k, v := range t.rec {
		out[k] = append([]uint64(nil), v...)
	}
	return out
}

func (t *Tape) Streams() []string {
	var ks []string
	for k := range t.rec {
		ks = append(ks, k)
	}
	sort.Strings(ks)
	return ks
}
