// Package simsync provides drop-in replacements of sync.Mutex, RWMutex, Once and
// Cond that are mediated by the simrt scheduler while a simulation is active
// and behave like the real primitives otherwise.
package simsync

import (
	"runtime"
	"sync"

	"verifsim/simrt"
)

// Locker is sync.Locker.
type Locker = sync.Locker

// Mutex replaces sync.Mutex.
type Mutex struct {
	real   sync.Mutex
	g      sync.Mutex // guards the simulated state for a few instructions
	locked bool
	owner  *simrt.Task
}

func (m *Mutex) try(t *simrt.Task) bool {
	m.g.Lock()
	defer m.g.Unlock()
	if m.locked {
		return false
	}
	m.locked = true
	m.owner = t
	return true
}

func (m *Mutex) isFree() bool { return !m.locked }

func (m *Mutex) Lock() {
	t := simrt.Cur()
	if t == nil {
		m.real.Lock()
		return
	}
	if t.IsDead() {
		runtime.Goexit() // the run is over: no more repository code on this goroutine
	}
	t.Yield("Lock")
	for !m.try(t) {
		t.Block("Lock.wait", m.isFree)
	}
	t.Acquired()
}

func (m *Mutex) TryLock() bool {
	t := simrt.Cur()
	if t == nil {
		return m.real.TryLock()
	}
	if t.IsDead() {
		runtime.Goexit() // the run is over: no more repository code on this goroutine
	}
	t.Yield("TryLock")
	return m.try(t)
}

func (m *Mutex) Unlock() {
	t := simrt.Cur()
	if t == nil {
		m.real.Unlock()
		return
	}
	if t.IsDead() {
		return
	}
	m.g.Lock()
	if !m.locked {
		m.g.Unlock()
		panic("simsync: unlock of unlocked mutex")
	}
	m.locked = false
	m.owner = nil
	m.g.Unlock()
}

// RWMutex replaces sync.RWMutex (no writer preference: a pending writer does
// not block new readers).
type RWMutex struct {
	real    sync.RWMutex
	g       sync.Mutex
	writer  bool
	readers int
}

func (m *RWMutex) tryW() bool {
	m.g.Lock()
	defer m.g.Unlock()
	if m.writer || m.readers > 0 {
		return false
	}
	m.writer = true
	return true
}

func (m *RWMutex) tryR() bool {
	m.g.Lock()
	defer m.g.Unlock()
	if m.writer {
		return false
	}
	m.readers++
	return true
}

func (m *RWMutex) Lock() {
	t := simrt.Cur()
	if t == nil {
		m.real.Lock()
		return
	}
	if t.IsDead() {
		runtime.Goexit() // the run is over: no more repository code on this goroutine
	}
	t.Yield("Lock")
	for !m.tryW() {
		t.Block("Lock.wait", func() bool { return !m.writer && m.readers == 0 })
	}
	t.Acquired()
}

func (m *RWMutex) Unlock() {
	t := simrt.Cur()
	if t == nil {
		m.real.Unlock()
		return
	}
	if t.IsDead() {
		return
	}
	m.g.Lock()
	if !m.writer {
		m.g.Unlock()
		panic("simsync: Unlock of unlocked RWMutex")
	}
	m.writer = false
	m.g.Unlock()
}

func (m *RWMutex) RLock() {
	t := simrt.Cur()
	if t == nil {
		m.real.RLock()
		return
	}
	if t.IsDead() {
		runtime.Goexit() // the run is over: no more repository code on this goroutine
	}
	t.Yield("RLock")
	for !m.tryR() {
		t.Block("RLock.wait", func() bool { return !m.writer })
	}
	t.Acquired()
}

func (m *RWMutex) RUnlock() {
	t := simrt.Cur()
	if t == nil {
		m.real.RUnlock()
		return
	}
	if t.IsDead() {
		return
	}
	m.g.Lock()
	if m.readers <= 0 {
		m.g.Unlock()
		panic("simsync: RUnlock of unlocked RWMutex")
	}
	m.readers--
	m.g.Unlock()
}

func (m *RWMutex) TryLock() bool {
	t := simrt.Cur()
	if t == nil {
		return m.real.TryLock()
	}
	return m.tryW()
}

func (m *RWMutex) TryRLock() bool {
	t := simrt.Cur()
	if t == nil {
		return m.real.TryRLock()
	}
	return m.tryR()
}

type rlocker RWMutex

func (r *rlocker) Lock()   { (*RWMutex)(r).RLock() }
func (r *rlocker) Unlock() { (*RWMutex)(r).RUnlock() }

func (m *RWMutex) RLocker() Locker { return (*rlocker)(m) }

// Once replaces sync.Once.
type Once struct {
	done bool
	m    Mutex
}

func (o *Once) Do(f func()) {
	if o.done {
		return
	}
	o.m.Lock()
	defer o.m.Unlock()
	if !o.done {
		defer func() { o.done = true }()
		f()
	}
}

// Cond replaces sync.Cond.
type Cond struct {
	L       Locker
	real    *sync.Cond
	g       sync.Mutex
	waiters []*condWaiter
}

type condWaiter struct{ signaled bool }

func NewCond(l Locker) *Cond {
	return &Cond{L: l, real: sync.NewCond(l)}
}

func (c *Cond) Wait() {
	t := simrt.Cur()
	if t == nil {
		if c.real == nil {
			c.real = sync.NewCond(c.L)
		}
		c.real.Wait()
		return
	}
	if t.IsDead() {
		runtime.Goexit() // the run is over: no more repository code on this goroutine
	}
	w := &condWaiter{}
	c.g.Lock()
	c.waiters = append(c.waiters, w)
	c.g.Unlock()
	c.L.Unlock()
	t.Block("Cond.Wait", func() bool { return w.signaled })
	c.L.Lock()
}

func (c *Cond) Signal() {
	t := simrt.Cur()
	if t == nil {
		if c.real != nil {
			c.real.Signal()
		}
		return
	}
	c.g.Lock()
	if len(c.waiters) > 0 {
		c.waiters[0].signaled = true
		c.waiters = c.waiters[1:]
	}
	c.g.Unlock()
}

func (c *Cond) Broadcast() {
	t := simrt.Cur()
	if t == nil {
		if c.real != nil {
			c.real.Broadcast()
		}
		return
	}
	c.g.Lock()
	for _, w := range c.waiters {
		w.signaled = true
	}
	c.waiters = nil
	c.g.Unlock()
}

// Pool replaces sync.Pool with a deterministic LIFO free list: the real pool's
// per-P caches and GC-driven clearing cannot be seeded and would make the
// identity of recycled buffers differ between a run and its replay.
type Pool struct {
	New   func() any
	g     sync.Mutex
	items []any
}

func (p *Pool) Get() any {
	p.g.Lock()
	if n := len(p.items); n > 0 {
		x := p.items[n-1]
		p.items = p.items[:n-1]
		p.g.Unlock()
		return x
	}
	p.g.Unlock()
	if p.New != nil {
		return p.New()
	}
	return nil
}

func (p *Pool) Put(x any) {
	if x == nil {
		return
	}
	p.g.Lock()
	if len(p.items) < 64 {
		p.items = append(p.items, x)
	}
	p.g.Unlock()
}
