// Package simos mirrors the os functions the repository uses for directory and
// file manipulation. Each call first consults the active simulation's disk
// hook, which may turn it into a scheduling point, inject an error or record a
// crash image; without a simulation the calls are the plain os ones.
package simos

import (
	"io/fs"
	"os"
	"time"

	"verifsim/simrt"
)

func pre(op string, paths ...string) error {
	s := simrt.ActiveSim()
	if s == nil || s.OSHook == nil {
		return nil
	}
	t := simrt.Cur()
	if t == nil || t.IsDead() {
		return nil
	}
	return s.OSHook(t, op, false, paths)
}

func post(op string, paths ...string) {
	s := simrt.ActiveSim()
	if s == nil || s.OSHook == nil {
		return
	}
	t := simrt.Cur()
	if t == nil || t.IsDead() {
		return
	}
	s.OSHook(t, op, true, paths)
}

func Open(name string) (*os.File, error) {
	if err := pre("Open", name); err != nil {
		return nil, err
	}
	return os.Open(name)
}

func OpenFile(name string, flag int, perm os.FileMode) (*os.File, error) {
	if err := pre("OpenFile", name); err != nil {
		return nil, err
	}
	f, err := os.OpenFile(name, flag, perm)
	post("OpenFile", name)
	return f, err
}

func Create(name string) (*os.File, error) {
	if err := pre("Create", name); err != nil {
		return nil, err
	}
	f, err := os.Create(name)
	post("Create", name)
	return f, err
}

func CreateTemp(dir, pattern string) (*os.File, error) {
	if err := pre("CreateTemp", dir); err != nil {
		return nil, err
	}
	f, err := os.CreateTemp(dir, pattern)
	post("CreateTemp", dir)
	return f, err
}

func Mkdir(name string, perm os.FileMode) error {
	if err := pre("Mkdir", name); err != nil {
		return err
	}
	err := os.Mkdir(name, perm)
	post("Mkdir", name)
	return err
}

func MkdirAll(name string, perm os.FileMode) error {
	if err := pre("MkdirAll", name); err != nil {
		return err
	}
	err := os.MkdirAll(name, perm)
	post("MkdirAll", name)
	return err
}

func MkdirTemp(dir, pattern string) (string, error) {
	if err := pre("MkdirTemp", dir); err != nil {
		return "", err
	}
	n, err := os.MkdirTemp(dir, pattern)
	post("MkdirTemp", dir)
	return n, err
}

func Rename(oldpath, newpath string) error {
	if err := pre("Rename", oldpath, newpath); err != nil {
		return err
	}
	err := os.Rename(oldpath, newpath)
	post("Rename", oldpath, newpath)
	return err
}

func Remove(name string) error {
	if err := pre("Remove", name); err != nil {
		return err
	}
	err := os.Remove(name)
	post("Remove", name)
	return err
}

// RemoveAll removes entry by entry when a simulation is active so that a crash
// point can land in the middle of the removal.
func RemoveAll(path string) error {
	if err := pre("RemoveAll", path); err != nil {
		return err
	}
	s := simrt.ActiveSim()
	if s != nil && s.OSHook != nil && s.SplitRemoveAll {
		if ents, err := os.ReadDir(path); err == nil && len(ents) > 0 {
			for i, e := range ents {
				if err := os.RemoveAll(path + "/" + e.Name()); err != nil {
					return err
				}
				if i == 0 {
					post("RemoveAll.partial", path)
				}
			}
		}
	}
	err := os.RemoveAll(path)
	post("RemoveAll", path)
	return err
}

func Lchown(name string, uid, gid int) error {
	if err := pre("Lchown", name); err != nil {
		return err
	}
	return os.Lchown(name, uid, gid)
}

func Chown(name string, uid, gid int) error {
	if err := pre("Chown", name); err != nil {
		return err
	}
	return os.Chown(name, uid, gid)
}

func Stat(name string) (os.FileInfo, error) {
	if err := pre("Stat", name); err != nil {
		return nil, err
	}
	return os.Stat(name)
}

func Lstat(name string) (os.FileInfo, error) {
	if err := pre("Lstat", name); err != nil {
		return nil, err
	}
	return os.Lstat(name)
}

func ReadDir(name string) ([]os.DirEntry, error) {
	if err := pre("ReadDir", name); err != nil {
		return nil, err
	}
	return os.ReadDir(name)
}

func ReadFile(name string) ([]byte, error) {
	if err := pre("ReadFile", name); err != nil {
		return nil, err
	}
	return os.ReadFile(name)
}

func WriteFile(name string, data []byte, perm os.FileMode) error {
	if err := pre("WriteFile", name); err != nil {
		return err
	}
	err := os.WriteFile(name, data, perm)
	post("WriteFile", name)
	return err
}

func Symlink(oldname, newname string) error {
	if err := pre("Symlink", newname); err != nil {
		return err
	}
	err := os.Symlink(oldname, newname)
	post("Symlink", newname)
	return err
}

func Link(oldname, newname string) error {
	if err := pre("Link", newname); err != nil {
		return err
	}
	err := os.Link(oldname, newname)
	post("Link", newname)
	return err
}

func Chmod(name string, mode os.FileMode) error {
	if err := pre("Chmod", name); err != nil {
		return err
	}
	return os.Chmod(name, mode)
}

func Chtimes(name string, atime, mtime time.Time) error {
	if err := pre("Chtimes", name); err != nil {
		return err
	}
	return os.Chtimes(name, atime, mtime)
}

func Readlink(name string) (string, error) {
	if err := pre("Readlink", name); err != nil {
		return "", err
	}
	return os.Readlink(name)
}

func Truncate(name string, size int64) error {
	if err := pre("Truncate", name); err != nil {
		return err
	}
	return os.Truncate(name, size)
}

var _ fs.FileInfo
